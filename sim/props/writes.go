package props

import (
	"fmt"
	"sort"
	"strings"

	"verif/sim/rt"
	"verif/sim/simkv"
	"verif/sim/world"
)

const prefix = "/registry"

var keyUniverse = []string{
	prefix + "/a", prefix + "/a/b", prefix + "/a-b", prefix + "/ab",
	prefix + "/pods/ns/p1", prefix + "/pods/events/p1", prefix + "/events/ns/e1", prefix + "/b",
}

var allSites = []string{"seq.commit", "seq.committed", "seq.cache", "seq.bcast", "seq.sent", "watch.enter", "watch.subscribed", "watch.cacheread", "hub.recv",
	"kv.get", "kv.get.ret", "kv.commit", "kv.commit.ret", "kv.parts", "kv.del", "kv.del.ret", "kv.delcur", "kv.delcur.ret"}

// swarmSites deactivates a random subset of optional yield sites.
func swarmSites(r *rt.Rand, keep ...string) []string {
	if r.Chance(0.5) {
		return nil // all active
	}
	var off []string
	p := 0.15 + 0.5*r.Float64()
next:
	for _, s := range allSites {
		for _, k := range keep {
			if k == s {
				continue next
			}
		}
		if r.Chance(p) {
			off = append(off, s)
		}
	}
	return off
}

func pickInitRev(r *rt.Rand) uint64 {
	switch r.Intn(5) {
	case 0:
		return 1000
	case 1:
		return 99980 + uint64(r.Intn(19)) // slot ring index wraps during the run
	case 2:
		return 4294967290 // crosses 2^32
	case 3:
		return uint64(1+r.Intn(9))*100000 - uint64(r.Intn(30))
	}
	return uint64(100 + r.Intn(1000000))
}

func pickEngine(r *rt.Rand, tier string) (string, bool) {
	// engine mix: memkv dominates because it is 10x cheaper per run
	x := r.Intn(100)
	switch {
	case x < 80:
		return "memkv", r.Chance(0.15)
	case x < 92:
		return "badger", r.Chance(0.3)
	default:
		return "tikv", r.Chance(0.2)
	}
}

type writeOpts struct {
	compactor bool // a client compacting concurrently
	future    bool // include far-future / huge expected revisions (C04)
	reads     bool
	faults    string // "", "err", "uncertain"
	watchers  bool
}

// genWrites builds the concurrent-writers workload shared by C01, C02 and C04.
func genWrites(r *rt.Rand, tier string, idx int, o writeOpts) *world.Scenario {
	sc := &world.Scenario{Prefix: prefix, InitRev: pickInitRev(r), Seed: r.Uint64()}
	sc.Engine, sc.MetricsKV = pickEngine(r, tier)
	sc.Inactive = swarmSites(r, "kv.commit", "kv.commit.ret")
	if r.Chance(0.3) {
		sc.Stick = 0.3 + 0.6*r.Float64()
	}
	sc.Free.ConflictPlain = r.Chance(0.3)
	// the event cache size is a tuning knob (0 = the default of 200 000): correctness must not depend on it
	sc.WatchCache = []int{0, 0, 0, 1, 2, 3, 5, 8, 64}[r.Intn(9)]
	nk := 1 + r.Intn(3)
	perm := r.Perm(len(keyUniverse))
	keys := make([]string, nk)
	for i := range keys {
		keys[i] = keyUniverse[perm[i]]
	}
	// prologue: initial key states
	vn := 0
	val := func() string { vn++; return fmt.Sprintf("p%d", vn) }
	needCompact := false
	for _, k := range keys {
		switch r.Intn(4) {
		case 0: // never existed
		case 1: // live
			sc.Prologue = append(sc.Prologue, world.Op{K: "create", Key: k, Val: val()})
			if r.Chance(0.4) {
				sc.Prologue = append(sc.Prologue, world.Op{K: "update", Key: k, Val: val(), Rev: world.Rev{M: "known"}})
			}
		case 2: // deleted
			sc.Prologue = append(sc.Prologue, world.Op{K: "create", Key: k, Val: val()}, world.Op{K: "delete", Key: k, Rev: world.Rev{M: "known"}})
		case 3: // deleted and compacted
			sc.Prologue = append(sc.Prologue, world.Op{K: "create", Key: k, Val: val()}, world.Op{K: "delete", Key: k, Rev: world.Rev{M: "known"}})
			needCompact = true
		}
	}
	if needCompact {
		sc.Prologue = append(sc.Prologue, world.Op{K: "waitcommitted"}, world.Op{K: "compact", Rev: world.Rev{M: "committed"}})
	}
	if len(sc.Prologue) > 0 {
		sc.Prologue = append(sc.Prologue, world.Op{K: "waitcommitted"})
	}
	nc := 2 + r.Intn(3)
	class := "concurrent-writers"
	for c := 0; c < nc; c++ {
		var cl world.Client
		nops := 3 + r.Intn(8)
		for i := 0; i < nops; i++ {
			k := keys[r.Intn(len(keys))]
			v := fmt.Sprintf("v%d.%d", c, i)
			var op world.Op
			switch r.Weighted(25, 35, 20, 20) {
			case 0:
				op = world.Op{K: "create", Key: k, Val: v}
			case 1:
				op = world.Op{K: "update", Key: k, Val: v, Rev: pickExpect(r, o)}
			case 2:
				op = world.Op{K: "delete", Key: k, Rev: pickExpect(r, o)}
			case 3:
				op = world.Op{K: "get", Key: k}
				if o.reads && r.Chance(0.3) {
					op = world.Op{K: "list", Key: prefix + "/", End: prefix + "0", Rev: pickReadRev(r)}
				}
			}
			cl.Ops = append(cl.Ops, op)
		}
		sc.Clients = append(sc.Clients, cl)
	}
	if o.compactor {
		class = "writers+concurrent-compaction"
		var cl world.Client
		for i := 0; i < 2+r.Intn(5); i++ {
			// at, just below, or ahead of the committed revision (a request ahead of it must not reach writes
			// that are still in flight)
			cl.Ops = append(cl.Ops, world.Op{K: "compact", Rev: world.Rev{M: "committed", N: int64(r.Intn(7)) - 2}})
			if r.Chance(0.5) {
				cl.Ops = append(cl.Ops, world.Op{K: "get", Key: keys[0]})
			}
		}
		sc.Clients = append(sc.Clients, cl)
	}
	switch o.faults {
	case "err":
		class = "writers+engine-errors"
		sc.Rates.CommitErr = 0.05 + 0.15*r.Float64()
		sc.Rates.ReadErr = 0.05 * r.Float64()
		sc.Rates.OnlyClass = "data"
	}
	sc.Class = class
	return sc
}

func pickExpect(r *rt.Rand, o writeOpts) world.Rev {
	w := []int{55, 15, 12, 8, 10}
	if !o.future {
		w[4] = 3
	}
	switch r.Weighted(w...) {
	case 0:
		return world.Rev{M: "known"}
	case 1:
		return world.Rev{M: "stale", N: int64(1 + r.Intn(2))}
	case 2:
		return world.Rev{M: "zero"}
	case 3:
		return world.Rev{M: "tomb"}
	}
	if o.future && r.Chance(0.5) {
		switch r.Intn(3) {
		case 0:
			return world.Rev{M: "abs", N: int64(1) << 40}
		case 1:
			return world.Rev{M: "abs", N: -1} // MaxUint64
		}
		return world.Rev{M: "abs", N: int64(1) << 62}
	}
	return world.Rev{M: "future", N: int64(1 + r.Intn(50))}
}

func pickReadRev(r *rt.Rand) world.Rev {
	switch r.Intn(4) {
	case 0:
		return world.Rev{M: "zero"}
	case 1:
		return world.Rev{M: "hdr"}
	case 2:
		return world.Rev{M: "known"}
	}
	return world.Rev{M: "hdrminus", N: int64(1 + r.Intn(3))}
}

// ---------------------------------------------------------------------------
// epilogue shared by the write properties: liveness probe and final reads

const probeKey = prefix + "/zz-probe"

// FinalReads holds the epilogue's observations.
type FinalReads struct {
	Gets       map[string]*world.Rec
	ProbeOK    bool
	ProbeRev   uint64
	ProbeSeen  bool // probe became readable at latest revision
	ProbeEvent bool
	Committed  uint64
	Finished   bool
}

func writesEpilogue(c *Ctx) {
	w := c.W
	fr := &FinalReads{Gets: map[string]*world.Rec{}}
	c.Fin = fr
	keys := scenarioKeys(c.Sc)
	n := w.Nodes[0]
	// the probe runs as an ordinary client task
	fr.Finished = w.RunTask("probe", 0, 3000, func() {
		wa := w.ProbeWatch(prefix+"/zz", 0)
		r := w.ProbeOp(world.Op{K: "create", Key: probeKey, Val: "probe"})
		if r != nil && r.OK {
			fr.ProbeOK, fr.ProbeRev = true, r.Hdr
		}
		// bounded wait: the write must become readable
		deadline := w.S.SimTime() + 15e9
		w.S.YieldUntil("probe.wait", func() bool {
			return (fr.ProbeOK && n.B.GetCurrentRevision() >= fr.ProbeRev) || w.S.SimTime() > deadline
		})
		fr.Committed = n.B.GetCurrentRevision()
		lr := w.ProbeOp(world.Op{K: "list", Key: prefix + "/zz", End: prefix + "/zzz"})
		if lr != nil && lr.OK {
			for _, kv := range lr.KVs {
				if kv.Key == probeKey {
					fr.ProbeSeen = true
				}
			}
		}
		for _, k := range keys {
			fr.Gets[k] = w.ProbeOp(world.Op{K: "get", Key: k})
		}
		if wa != nil {
			w.S.YieldUntil("probe.ev", func() bool { return len(wa.Events) > 0 || w.S.SimTime() > deadline })
			for _, e := range wa.Events {
				if e.Key == probeKey {
					fr.ProbeEvent = true
				}
			}
		}
	})
}

func scenarioKeys(sc *world.Scenario) []string {
	set := map[string]bool{}
	add := func(ops []world.Op) {
		for _, op := range ops {
			if isWrite(op.K) {
				set[op.Key] = true
			}
		}
	}
	add(sc.Prologue)
	for _, cl := range sc.Clients {
		add(cl.Ops)
	}
	var out []string
	for k := range set {
		out = append(out, k)
	}
	sort.Strings(out)
	return out
}

// ---------------------------------------------------------------------------
// C01

func expectationHolds(op world.Op, revAbs uint64, st KeyState) bool {
	switch {
	case op.K == "create" || (op.K == "update" && revAbs == 0):
		return !st.Exists // absent or deleted
	case op.K == "update":
		return st.Exists && st.Rev == revAbs
	case op.K == "delete" && revAbs != 0:
		return st.Exists && st.Rev == revAbs
	case op.K == "delete":
		return st.Exists
	}
	return false
}

func checkC01(c *Ctx) { checkChain(c, "C01", true) }

// checkChain is the conditional-write oracle (C01); other properties reuse it
// under their own id for the writes they issue after compaction / fail-over.
func checkChain(c *Ctx, P string, justify bool) {
	w, out := c.W, c.Out
	tl := buildTimeline(w.KV.GT)
	byRec, byEntry := attribute(w.Recs, w.KV.GT)
	uncertain := false
	for _, e := range w.KV.GT {
		if strings.HasPrefix(e.Fault, "uncertain") {
			uncertain = true
		}
	}
	// step after which no unknown-outcome commit or repair write is in flight any more
	settledAfter := uint64(0)
	for _, e := range w.KV.GT {
		if strings.HasPrefix(e.Fault, "uncertain") || e.ByRetry {
			if e.RetStep > settledAfter {
				settledAfter = e.RetStep
			}
			if e.RetStep == 0 {
				settledAfter = ^uint64(0)
			}
		}
	}
	if uncertain && len(w.KV.GT) > 0 {
		// an applied unknown-outcome write that was never repaired (the run ended first) keeps the rule off
		repaired := false
		for _, e := range w.KV.GT {
			if e.ByRetry && e.Applied {
				repaired = true
			}
		}
		lost := true
		for _, e := range w.KV.GT {
			if e.Fault == "uncertain-applied" {
				lost = false
			}
		}
		if !repaired && !lost {
			settledAfter = ^uint64(0)
		}
	}
	overlap := false
	// (a) chain
	for key, cs := range tl.Keys {
		var prev KeyState
		for i, ch := range cs {
			r := byEntry[ch.Entry]
			if i > 0 && ch.State.Rev <= cs[i-1].State.Rev {
				out.violate(P, "chain-order", fmt.Sprintf("chain-order key=%s", key),
					"key %s: version %d applied after version %d", key, ch.State.Rev, cs[i-1].State.Rev)
			}
			if ch.Entry.ByRetry {
				prev = ch.State
				continue
			}
			if r == nil {
				out.violate(P, "orphan-version", "orphan-version", "key %s rev %d written by task %s belongs to no request", key, ch.State.Rev, ch.Entry.Task)
				prev = ch.State
				continue
			}
			if !expectationHolds(r.Op, r.RevAbs, prev) {
				out.violate(P, "chain-link", fmt.Sprintf("chain-link op=%s", r.Op.K),
					"key %s: %s(expect=%d) by client %d wrote rev %d over state %+v (lost update)", key, r.Op.K, r.RevAbs, r.Client, ch.State.Rev, prev)
			}
			if r.Op.K == "delete" {
				if !ch.State.Tomb {
					out.violate(P, "delete-not-tombstone", "delete-not-tombstone", "key %s: delete wrote a live version", key)
				}
			} else if ch.State.Tomb || ch.State.Val != string(world.Bytes(r.Op.Val)) {
				out.violate(P, "wrong-value-written", "wrong-value-written", "key %s rev %d: wrote %q tomb=%v, request value %q", key, ch.State.Rev, ch.State.Val, ch.State.Tomb, r.Op.Val)
			}
			if r.Done && r.Err == "" && !r.OK {
				out.violate(P, "applied-but-refused", fmt.Sprintf("applied-but-refused op=%s", r.Op.K),
					"key %s: request %s by client %d answered Succeeded=false but its version %d is in the store", key, r.Op.K, r.Client, ch.State.Rev)
			}
			if r.Done && r.Err != "" && !strings.HasPrefix(ch.Entry.Fault, "uncertain") {
				out.violate(P, "applied-but-error", fmt.Sprintf("applied-but-error op=%s", r.Op.K),
					"key %s: request %s by client %d answered error %q but its version %d is in the store", key, r.Op.K, r.Client, r.Err, ch.State.Rev)
			}
			prev = ch.State
		}
	}
	// (b) agreement and (c) double success
	succ := map[string]*world.Rec{}
	for _, r := range w.Recs {
		if !isWrite(r.Op.K) || !r.Done {
			continue
		}
		es := byRec[r]
		applied := 0
		var rev uint64
		for _, e := range es {
			if e.Applied {
				applied++
				_, rev, _ = versionRev(e)
			}
		}
		if r.OK && r.Err == "" {
			if applied != 1 {
				out.violate(P, "acked-not-applied", fmt.Sprintf("acked-not-applied op=%s", r.Op.K),
					"client %d %s %s answered success (rev %d) but %d batches of it were applied", r.Client, r.Op.K, r.Op.Key, r.Hdr, applied)
			} else if rev != r.Hdr {
				out.violate(P, "acked-wrong-revision", "acked-wrong-revision", "client %d %s %s: header %d, stored version %d", r.Client, r.Op.K, r.Op.Key, r.Hdr, rev)
			}
			if r.RevAbs != 0 && r.Op.K != "create" {
				k := fmt.Sprintf("%s@%d", r.Op.Key, r.RevAbs)
				if o := succ[k]; o != nil {
					out.violate(P, "double-success", "double-success", "clients %d and %d both succeeded on %s conditioned on revision %d", o.Client, r.Client, r.Op.Key, r.RevAbs)
				}
				succ[k] = r
			}
		}
		// overlapping writes on one key: the non-triviality probe
		for _, q := range w.Recs {
			if q != r && isWrite(q.Op.K) && q.Op.Key == r.Op.Key && q.Done && q.Inv <= r.Ret && r.Inv <= q.Ret {
				overlap = true
			}
		}
		// (d) justified failure + failure-branch key-value
		if justify && r.Err == "" && !r.OK && r.Client >= 0 {
			sts := tl.StatesDuring(r.Op.Key, r.Inv, r.Ret)
			always := true
			for _, st := range sts {
				if !expectationHolds(r.Op, r.RevAbs, st) {
					always = false
				}
			}
			if r.Op.K == "delete" && r.RevAbs == 0 && len(sts) > 1 {
				// an unguarded delete is conditioned on the version it read: any
				// concurrent change of the key during the request justifies a failure
				always = false
			}
			// (with unknown outcomes in the run the states are still the store's own, from the ground truth:
			// the rule stays on for requests that began after every unknown-outcome commit had returned and
			// its repair, if any, had been applied)
			if always && (!uncertain || r.Inv > settledAfter) {
				out.violate(P, "unjustified-failure", fmt.Sprintf("unjustified-failure op=%s", r.Op.K),
					"client %d %s %s expect=%d reported a failed condition although the key matched the expectation throughout [%d,%d]: states %+v",
					r.Client, r.Op.K, r.Op.Key, r.RevAbs, r.Inv, r.Ret, sts)
			}
			if r.Op.K != "create" && !uncertain {
				okKV := false
				for _, st := range sts {
					if r.KV == nil && !st.Exists {
						okKV = true
					}
					if r.KV != nil && st.Exists && st.Rev == r.KV.Rev && st.Val == r.KV.Val {
						okKV = true
					}
				}
				// delete on a key that never existed returns no kv; delete CAS-failure whose re-read failed returns the old one
				if !okKV {
					out.violate(P, "failure-branch-kv", fmt.Sprintf("failure-branch-kv op=%s", r.Op.K),
						"client %d %s %s: failure branch returned %+v, not a state of the key during the request: %+v", r.Client, r.Op.K, r.Op.Key, r.KV, sts)
				}
			}
		}
	}
	if overlap {
		out.NonTrivial = true
		out.probe("overlapping-writes-on-one-key")
	}
	// (e) final state
	if fr := c.Fin; fr != nil && fr.Finished && !uncertain {
		for key, rec := range fr.Gets {
			if rec == nil || !rec.Done || rec.Err != "" {
				continue
			}
			st := tl.Final(key)
			if st.Exists != (rec.KV != nil) || (st.Exists && (rec.KV.Rev != st.Rev || rec.KV.Val != st.Val)) {
				out.violate(P, "final-get", "final-get", "key %s: final Get returned %+v, chain head is %+v", key, rec.KV, st)
			}
		}
	}
	probesFromGT(c, tl)
}

func probesFromGT(c *Ctx, tl *Timeline) {
	out := c.Out
	for _, cs := range tl.Keys {
		for i, ch := range cs {
			if i > 0 && cs[i-1].State.Tomb && !ch.State.Tomb {
				out.probe("create-over-tombstone")
			}
		}
	}
	for _, e := range c.W.KV.GT {
		if e.Call == "commit" && e.Class == "data" && !e.Applied && e.ErrClass == "cas" {
			out.probe("engine-condition-failed")
		}
		if e.Call == "commit" && e.Class == "data" && !e.Applied && e.ErrClass == "other" && e.Fault == "" {
			out.probe("engine-txn-conflict")
		}
	}
	for _, r := range c.W.Recs {
		if r.Op.K == "delete" && strings.Contains(r.Err, "cas failed, new revision") {
			out.probe("delete-refused-newrev<=modrev")
		}
		if strings.Contains(r.Err, "revision drift back") {
			out.probe("drift-back")
		}
	}
}

// ---------------------------------------------------------------------------
// C02

func checkC02(c *Ctx) {
	const P = "C02"
	w, out := c.W, c.Out
	byRec, _ := attribute(w.Recs, w.KV.GT)
	// (1) uniqueness of observed allocations
	seen := map[uint64]string{}
	note := func(rev uint64, who string) {
		if rev == 0 {
			return
		}
		if o, ok := seen[rev]; ok && o != who {
			out.violate(P, "duplicate-revision", "duplicate-revision", "revision %d stamped on two attempts: %s and %s", rev, o, who)
		}
		seen[rev] = who
	}
	alloc := map[*world.Rec]uint64{}
	for _, e := range w.KV.GT {
		if e.Call == "commit" && e.Class == "data" {
			if _, rev, ok := versionRev(e); ok {
				// one request may issue several batches with its one revision (create retried over a tombstone)
				who := fmt.Sprintf("batch#%d(%s)", e.Seq, e.Task)
				if r, ok := e.Tag.(*world.Rec); ok && r != nil {
					who = fmt.Sprintf("c%d.%d", r.Client, r.Idx)
				}
				note(rev, who)
			}
		}
	}
	concurrentAlloc := false
	for _, r := range w.Recs {
		if !isWrite(r.Op.K) || !r.Done {
			continue
		}
		for _, e := range byRec[r] {
			if _, rev, ok := versionRev(e); ok {
				alloc[r] = rev // the last attempt of a request (create may retry over a tombstone with the same revision)
			}
		}
		if _, ok := alloc[r]; !ok && r.Err == "" && (r.Op.K == "create" || r.OK) {
			alloc[r] = r.Hdr
			note(r.Hdr, fmt.Sprintf("c%d.%d", r.Client, r.Idx))
		}
	}
	// (2) real-time order
	type wr struct {
		r   *world.Rec
		rev uint64
	}
	var ws []wr
	for r, rev := range alloc {
		ws = append(ws, wr{r, rev})
	}
	sort.Slice(ws, func(i, j int) bool { return ws[i].rev < ws[j].rev })
	for i := range ws {
		for j := range ws {
			a, b := ws[i], ws[j]
			if a.r.Ret < b.r.Inv && a.rev >= b.rev {
				out.violate(P, "real-time-order", "real-time-order", "request c%d.%d finished (step %d, rev %d) before c%d.%d began (step %d) but got rev %d",
					a.r.Client, a.r.Idx, a.r.Ret, a.rev, b.r.Client, b.r.Idx, b.r.Inv, b.rev)
			}
			if i < j && a.r.Inv <= b.r.Ret && b.r.Inv <= a.r.Ret && a.r.Client != b.r.Client {
				concurrentAlloc = true
			}
		}
	}
	if concurrentAlloc {
		out.NonTrivial = true
		out.probe("concurrent-allocations")
	}
	// (3) per-key chain strictly increasing in apply order
	tl := buildTimeline(w.KV.GT)
	for key, cs := range tl.Keys {
		for i := 1; i < len(cs); i++ {
			if cs[i].State.Rev <= cs[i-1].State.Rev {
				out.violate(P, "key-history-not-increasing", "key-history-not-increasing", "key %s: rev %d applied after rev %d", key, cs[i].State.Rev, cs[i-1].State.Rev)
			}
		}
	}
	// (4) header >= modification revision of any data carried
	for _, r := range w.Recs {
		if !r.Done || r.Err != "" {
			continue
		}
		chk := func(kv world.KV, what string) {
			if kv.Rev > r.Hdr {
				sig := fmt.Sprintf("header-below-data op=%s", r.Op.K)
				if r.Op.K == "list" && r.RevAbs > r.ComInv {
					sig += " explicit-revision-ahead-of-committed"
				}
				out.violate(P, "header-below-data", sig, "c%d.%d %s %s rev=%d: header %d < %s mod revision %d", r.Client, r.Idx, r.Op.K, r.Op.Key, r.RevAbs, r.Hdr, what, kv.Rev)
			}
		}
		if r.KV != nil {
			chk(*r.KV, "kv")
		}
		for _, kv := range r.KVs {
			chk(kv, "kvs")
		}
	}
}

// ---------------------------------------------------------------------------
// C04

func checkC04(c *Ctx) {
	const P = "C04"
	w, out := c.W, c.Out
	// safety: committed revision never reaches the revision of an unfinished storage transaction
	outOfOrder := false
	var maxAlloc uint64
	type finished struct{ rev, ret uint64 }
	var fin []finished
	for _, e := range w.KV.GT {
		if e.Call != "commit" || e.Class != "data" {
			continue
		}
		_, rev, ok := versionRev(e)
		if !ok {
			continue
		}
		if rev > maxAlloc {
			maxAlloc = rev
		}
		end := e.RetStep
		if end == 0 {
			end = uint64(len(w.ComSamples)) + 1
		}
		for s := e.EnterStep; s < end && int(s)-1 < len(w.ComSamples); s++ {
			if s == 0 {
				continue
			}
			if com := w.ComSamples[s-1]; com >= rev && com-rev < 1<<40 {
				out.violate(P, "read-overtakes-write", "read-overtakes-write",
					"committed revision %d at step %d while the storage transaction of revision %d (task %s) is in flight [%d,%d)", com, s, rev, e.Task, e.EnterStep, e.RetStep)
				break
			}
		}
		if e.RetStep != 0 {
			fin = append(fin, finished{rev, e.RetStep})
		}
	}
	// (probe) did a write with a later revision finish its storage transaction before one with an earlier revision?
	sort.Slice(fin, func(i, j int) bool { return fin[i].rev < fin[j].rev })
	for i := 1; i < len(fin); i++ {
		if fin[i].ret < fin[i-1].ret && fin[i].rev > fin[i-1].rev {
			outOfOrder = true
		}
	}
	if outOfOrder {
		out.NonTrivial = true
		out.probe("later-allocated-write-finished-first")
	}
	for _, r := range w.Recs {
		if r.Done && r.Err == "" && isWrite(r.Op.K) && r.Hdr > maxAlloc && r.Hdr-maxAlloc < 1<<40 {
			maxAlloc = r.Hdr
		}
	}
	probesFromGT(c, buildTimeline(w.KV.GT))
	fr := c.Fin
	if fr == nil {
		return
	}
	if w.Stuck {
		out.violate(P, "requests-stalled", "requests-stalled", "client requests did not finish: %s; tasks: %v", w.StuckWhy, stuckTasks(w))
		return
	}
	if !fr.Finished {
		out.violate(P, "probe-stalled", "probe-stalled", "liveness probe did not finish within its step budget; tasks: %v", stuckTasks(w))
		return
	}
	// bounded liveness at quiescence
	com := fr.Committed
	if com < maxAlloc {
		out.violate(P, "committed-behind-allocated", "committed-behind-allocated"+wedgeCause(w),
			"after all requests returned and 12 simulated seconds of idleness the read revision is %d but revision %d was handed out%s", com, maxAlloc, wedgeCause(w))
	}
	if fr.ProbeOK && (!fr.ProbeSeen || !fr.ProbeEvent) {
		out.violate(P, "later-write-not-visible", "later-write-not-visible"+wedgeCause(w),
			"a write acknowledged at revision %d after the workload never became readable/watchable (listed=%v event=%v, read revision %d)%s", fr.ProbeRev, fr.ProbeSeen, fr.ProbeEvent, com, wedgeCause(w))
	}
}

func stuckTasks(w *world.World) []string {
	var out []string
	for _, t := range w.S.Tasks() {
		if strings.Contains(t, "client") || strings.Contains(t, "probe") || strings.Contains(t, "hostile") || strings.Contains(t, "matrix") || strings.Contains(t, "reader") {
			out = append(out, t)
		}
	}
	return out
}

// wedgeCause names the request shape that precedes a wedge, for the signature.
func wedgeCause(w *world.World) string {
	for _, r := range w.Recs {
		if strings.Contains(r.Err, "revision drift back") {
			return " after-drift-back-" + r.Op.K
		}
	}
	return ""
}

var _ = simkv.ErrInjected
