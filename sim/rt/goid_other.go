//go:build !amd64 || race

package rt

func goid() uint64 { return goidSlow() }

func goidOffForTest() int { return -1 }
