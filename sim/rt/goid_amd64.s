//go:build amd64 && !race

#include "textflag.h"

// func gword(off uintptr) uint64: the 8-byte word at byte offset off of the running goroutine's descriptor
TEXT ·gword(SB),NOSPLIT,$0-16
	MOVQ (TLS), BX
	MOVQ off+0(FP), CX
	MOVQ (BX)(CX*1), AX
	MOVQ AX, ret+8(FP)
	RET
