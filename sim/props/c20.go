package props

import (
	"context"
	"fmt"
	"math"
	"runtime/debug"
	"strings"
	"testing"
	"time"

	pb "go.etcd.io/etcd/api/v3/etcdserverpb"

	proto "github.com/kubewharf/kubebrain-client/api/v2rpc"

	"github.com/kubewharf/kubebrain/pkg/metrics"
	kbprom "github.com/kubewharf/kubebrain/pkg/metrics/prometheus"

	"verif/sim/rt"
	"verif/sim/simkv"
	"verif/sim/world"
)

// C20 — no request can crash or wedge a node, with production metrics enabled.

var c20Keys = []string{"", "hex:00", "#", "$", "a$b", prefix + "/x", prefix + "/x$", prefix + "/", "/", "hex:ffff", "hex:57fb808b2f7265672400000000000000ff",
	prefix + "/events/ns/e", "LONG", prefix + "/y", "compact_rev_key", prefix + "/compact_key", prefix + "/election",
	// long valid-UTF-8 keys of 2-, 3- and 4-byte characters at both byte parities: wherever code cuts a key
	// (or a label made from it) at a byte offset, one of them is cut inside a character
	"UTF8:2:0", "UTF8:2:1", "UTF8:3:0", "UTF8:3:1", "UTF8:3:2", "UTF8:4:0", "UTF8:4:1", "UTF8:4:3"}
var c20Vals = []string{"", "x", "tombstone", "hex:00", "hex:0000000000000001", "LONG", "v"}
var c20Revs = []int64{0, 1, -1, math.MinInt64, math.MaxInt64, 1 << 40, 1888, -1888, 2, -2}

var c20Calls = []string{"brain.create", "brain.update", "brain.update-nilkv", "brain.delete", "brain.compact", "brain.get", "brain.range", "brain.count", "brain.partitions",
	"brain.rangestream", "brain.watch", "etcd.range", "etcd.range-count", "etcd.range-partitions", "etcd.txn-create", "etcd.txn-update", "etcd.txn-delete", "etcd.txn-udelete",
	"etcd.txn-empty", "etcd.txn-nil-ops", "etcd.txn-compact", "etcd.txn-unsupported", "etcd.watch", "etcd.watch-negative", "etcd.watch-cancel-unknown", "etcd.watch-sendfail", "etcd.watch-sendfail-on-event", "etcd.watch-sendfail-once",
	"etcd.put", "etcd.deleterange", "etcd.compact"}

func genC20(r *rt.Rand, tier string, idx int) *world.Scenario {
	sc := &world.Scenario{Prefix: prefix, Seed: r.Uint64(), Engine: "memkv", EtcdCompat: r.Chance(0.7), Class: "hostile-requests"}
	if r.Chance(0.1) {
		sc.Engine = "badger"
	}
	sc.Extra = map[string]int64{"real_metrics": 1}
	if idx%8 == 5 {
		// component-level class: concurrent first emissions through the real Prometheus wrapper alone
		sc.Class = "metric-first-emission-race"
		nt := 2 + r.Intn(4)
		for c := 0; c < nt; c++ {
			var cl world.Client
			n := 3 + r.Intn(8)
			for i := 0; i < n; i++ {
				cl.Ops = append(cl.Ops, world.Op{K: "emit", API: []string{"counter", "gauge", "histogram"}[r.Intn(3)], Key: fmt.Sprintf("m%d", r.Intn(3)), Limit: int64(r.Intn(2))})
			}
			sc.Clients = append(sc.Clients, cl)
		}
		return sc
	}
	// a task parked inside the metrics client may hold one of the node's locks (the hub emits under
	// its lock): the yield at a vector miss is only used by the component-level class
	sc.Inactive = []string{"prom.vec.miss"}
	if idx%8 == 2 {
		// a slow engine under the handlers' one-second write deadline
		sc.Class = "hostile-requests+slow-engine"
		sc.Plan = append(sc.Plan, &simkv.Fault{Op: "commit", Class: "data", Nth: 1 + r.Intn(6), Effect: fmt.Sprintf("delay:%d", 1100+r.Intn(4000))})
	}
	nc := 1
	if idx%4 == 3 {
		nc = 2
		sc.Class = "hostile-requests-racing"
	}
	for c := 0; c < nc; c++ {
		var cl world.Client
		n := 6 + r.Intn(24)
		for i := 0; i < n; i++ {
			op := world.Op{K: "h", API: c20Calls[r.Intn(len(c20Calls))], Key: c20Keys[r.Intn(len(c20Keys))], End: c20Keys[r.Intn(len(c20Keys))],
				Val: c20Vals[r.Intn(len(c20Vals))], Rev: world.Rev{M: "abs", N: c20Revs[r.Intn(len(c20Revs))]}, Limit: []int64{0, 1, -1, math.MaxInt64, math.MaxInt64 - 1, math.MaxInt64 / 2, 1 << 31, math.MinInt64}[r.Intn(8)]}
			if r.Chance(0.3) {
				// a well-formed neighbour of the hostile input
				op.Key, op.End, op.Val = prefix+"/y", prefix+"/z", "v"
			}
			cl.Ops = append(cl.Ops, op)
		}
		sc.Clients = append(sc.Clients, cl)
	}
	return sc
}

func c20Bytes(s string) []byte {
	if s == "LONG" {
		return []byte(prefix + "/" + strings.Repeat("k", 70000))
	}
	if strings.HasPrefix(s, "UTF8:") {
		var width, shift int
		fmt.Sscanf(s, "UTF8:%d:%d", &width, &shift)
		ch := map[int]string{2: "\u00e9", 3: "\u20ac", 4: "\U0001F600"}[width]
		return []byte(prefix + "/" + strings.Repeat("x", shift) + strings.Repeat(ch, 400/width))
	}
	return world.Bytes(s)
}

func c20Custom(t *testing.T, sc *world.Scenario, out *Outcome) {
	const P = "C20"
	// production metrics: the real Prometheus client on a registry of this run's own
	kbprom.ResetRegistryForSim()
	world.RealMetrics = kbprom.NewMetrics()
	if sc.Class == "metric-first-emission-race" {
		c20Emissions(t, sc, out)
		return
	}
	w, err := world.New(sc)
	if err != nil {
		out.Infra = err.Error()
		return
	}
	defer w.Teardown()
	s := w.S
	pn := w.NewPeerNet()
	sn := w.AddServer(pn, false)
	if !w.WaitLeader(sn, 20*time.Second) {
		out.Infra = "node never became leader"
		return
	}
	ctx := context.Background()
	// a watch that must keep seeing the probes
	pw := world.NewBrainWatchStream()
	s.Go("probe-watch", -1, func() {
		sn.Brain.Watch(&proto.WatchRequest{Key: []byte(prefix + "/zz-probe")}, pw)
	})
	s.Settle()
	for steps := 0; steps < 2000 && sn.M.Counter("watcher_hub.add_watcher") == 0; steps++ {
		if !s.Step() {
			s.Advance(100 * time.Millisecond)
		}
	}
	s.Quiesce(200)
	probeN := 0
	probeSeen := func(key string) bool {
		for _, r := range pw.Snapshot() {
			for _, e := range r.Events {
				if string(e.Kv.Key) == key {
					return true
				}
			}
		}
		return false
	}
	// call runs one request and turns a panic in node code into a violation
	call := func(what string, f func() error) (err error) {
		defer func() {
			if r := recover(); r != nil {
				st := string(debug.Stack())
				where := "harness"
				for _, line := range strings.Split(st, "\n") {
					if strings.Contains(line, "github.com/kubewharf/kubebrain/") && !strings.Contains(line, "/verifhook") {
						where = strings.TrimSpace(line)
						break
					}
				}
				name := what
				if i := strings.Index(name, " "); i > 0 {
					name = name[:i]
				}
				out.violate(P, "panic", "panic call="+name, "request %s panicked: %v at %s", what, r, where)
				err = fmt.Errorf("panic: %v", r)
			}
		}()
		return f()
	}
	probe := func(after string) {
		probeN++
		key := fmt.Sprintf("%s/zz-probe-%d", prefix, probeN)
		var cerr, gerr, lerr error
		var cok, gok, lok bool
		var hdr uint64
		call("probe-create", func() error {
			resp, e := sn.Brain.Create(ctx, &proto.CreateRequest{Key: []byte(key), Value: []byte("p")})
			cerr = e
			if e == nil {
				cok, hdr = resp.Succeeded, resp.Header.GetRevision()
			}
			return e
		})
		deadline := s.SimTime() + 10*time.Second
		s.YieldUntil("probe.wait", func() bool { return sn.B.GetCurrentRevision() >= hdr || s.SimTime() > deadline })
		call("probe-get", func() error {
			resp, e := sn.Brain.Get(ctx, &proto.GetRequest{Key: []byte(key)})
			gerr = e
			gok = e == nil && resp.Kv != nil && string(resp.Kv.Value) == "p"
			return e
		})
		for try := 0; try < 4 && !lok; try++ {
			call("probe-list", func() error {
				resp, e := sn.Brain.Range(ctx, &proto.RangeRequest{Key: []byte(prefix + "/zz-probe"), End: []byte(prefix + "/zz-probf")})
				lerr = e
				if e == nil {
					for _, kv := range resp.Kvs {
						if string(kv.Key) == key {
							lok = true
						}
					}
				}
				return e
			})
			// a list that raced a compaction (another client's, or the background one) is refused: legal, ask again
			if lerr == nil || !strings.Contains(lerr.Error(), "compact revision") {
				break
			}
			s.Yield("probe.retry")
		}
		s.YieldUntil("probe.ev", func() bool { return probeSeen(key) || s.SimTime() > deadline })
		if !cok || !gok || !lok || !probeSeen(key) {
			name := after
			if i := strings.Index(name, " "); i > 0 {
				name = name[:i]
			}
			out.violate(P, "node-stopped-serving", "node-stopped-serving after="+name,
				"after request %s a well-formed create/get/list/watch probe failed: create ok=%v err=%v; get ok=%v err=%v; list ok=%v err=%v; event=%v; committed=%d", after, cok, cerr, gok, gerr, lok, lerr, probeSeen(key), sn.B.GetCurrentRevision())
		}
	}
	done := 0
	for ci := range sc.Clients {
		ci := ci
		s.Go(fmt.Sprintf("hostile%d", ci), -1, func() {
			for i, op := range sc.Clients[ci].Ops {
				s.Yield("hostile.step")
				key, end, val, rev := c20Bytes(op.Key), c20Bytes(op.End), c20Bytes(op.Val), op.Rev.N
				desc := fmt.Sprintf("%s key=%q end=%q val=%q rev=%d limit=%d", op.API, clipS(op.Key), clipS(op.End), clipS(op.Val), rev, op.Limit)
				out.probe("call-" + op.API)
				e := call(desc, func() error {
					switch op.API {
					case "brain.create":
						_, e := sn.Brain.Create(ctx, &proto.CreateRequest{Key: key, Value: val, Lease: rev})
						return e
					case "brain.update":
						_, e := sn.Brain.Update(ctx, &proto.UpdateRequest{Kv: &proto.KeyValue{Key: key, Value: val, Revision: uint64(rev)}, Lease: op.Limit})
						return e
					case "brain.update-nilkv":
						_, e := sn.Brain.Update(ctx, &proto.UpdateRequest{})
						return e
					case "brain.delete":
						_, e := sn.Brain.Delete(ctx, &proto.DeleteRequest{Key: key, Revision: uint64(rev)})
						return e
					case "brain.compact":
						_, e := sn.Brain.Compact(ctx, &proto.CompactRequest{Revision: uint64(rev)})
						return e
					case "brain.get":
						_, e := sn.Brain.Get(ctx, &proto.GetRequest{Key: key, Revision: uint64(rev)})
						return e
					case "brain.range":
						_, e := sn.Brain.Range(ctx, &proto.RangeRequest{Key: key, End: end, Revision: uint64(rev), Limit: op.Limit})
						return e
					case "brain.count":
						_, e := sn.Brain.Count(ctx, &proto.CountRequest{Key: key, End: end})
						return e
					case "brain.partitions":
						_, e := sn.Brain.ListPartition(ctx, &proto.ListPartitionRequest{Key: key, End: end})
						return e
					case "brain.rangestream":
						st := world.NewBrainRangeStream()
						return sn.Brain.RangeStream(&proto.RangeRequest{Key: key, End: end, Revision: uint64(rev)}, st)
					case "brain.watch":
						st := world.NewBrainWatchStream()
						var e error
						fin := false
						s.Go(fmt.Sprintf("hw%d.%d", ci, i), -1, func() {
							e = call(desc, func() error { return sn.Brain.Watch(&proto.WatchRequest{Key: key, Revision: uint64(rev)}, st) })
							fin = true
						})
						s.Yield("hostile.watch")
						st.Cancel()
						_ = fin
						return e
					case "etcd.range":
						_, e := sn.Etcd.Range(ctx, &pb.RangeRequest{Key: key, RangeEnd: end, Revision: rev, Limit: op.Limit})
						return e
					case "etcd.range-count":
						_, e := sn.Etcd.Range(ctx, &pb.RangeRequest{Key: key, RangeEnd: end, CountOnly: true})
						return e
					case "etcd.range-partitions":
						_, e := sn.Etcd.Range(ctx, &pb.RangeRequest{Key: key, RangeEnd: end, Revision: 1888})
						return e
					case "etcd.txn-create":
						txn, _ := buildTxn("create", string(key), "", string(val), 0)
						_, e := sn.Etcd.Txn(ctx, txn)
						return e
					case "etcd.txn-update":
						txn, _ := buildTxn("update", string(key), "", string(val), rev)
						_, e := sn.Etcd.Txn(ctx, txn)
						return e
					case "etcd.txn-delete":
						txn, _ := buildTxn("delete", string(key), "", "", rev)
						_, e := sn.Etcd.Txn(ctx, txn)
						return e
					case "etcd.txn-udelete":
						txn, _ := buildTxn("udelete", string(key), "", "", 0)
						_, e := sn.Etcd.Txn(ctx, txn)
						return e
					case "etcd.txn-empty":
						_, e := sn.Etcd.Txn(ctx, &pb.TxnRequest{})
						return e
					case "etcd.txn-nil-ops":
						_, e := sn.Etcd.Txn(ctx, &pb.TxnRequest{Compare: []*pb.Compare{{}}, Success: []*pb.RequestOp{{}}, Failure: []*pb.RequestOp{{}}})
						return e
					case "etcd.txn-compact":
						c := &pb.Compare{Target: pb.Compare_VERSION, Result: pb.Compare_EQUAL, Key: []byte("compact_rev_key"), TargetUnion: &pb.Compare_Version{Version: rev}}
						_, e := sn.Etcd.Txn(ctx, &pb.TxnRequest{Compare: []*pb.Compare{c}, Success: []*pb.RequestOp{opPut("compact_rev_key", "1")}, Failure: []*pb.RequestOp{opRange("compact_rev_key")}})
						return e
					case "etcd.txn-unsupported":
						txn, _ := buildTxn(c16Unsupported[int(uint64(rev)%uint64(len(c16Unsupported)))], string(key), string(end), string(val), rev)
						_, e := sn.Etcd.Txn(ctx, txn)
						return e
					case "etcd.put":
						_, e := sn.Etcd.Put(ctx, &pb.PutRequest{Key: key, Value: val})
						return e
					case "etcd.deleterange":
						_, e := sn.Etcd.DeleteRange(ctx, &pb.DeleteRangeRequest{Key: key, RangeEnd: end})
						return e
					case "etcd.compact":
						_, e := sn.Etcd.Compact(ctx, &pb.CompactionRequest{Revision: rev})
						return e
					case "etcd.watch-sendfail-once":
						// one Send of an event fails, the stream accepts later ones: after a change it could not
						// deliver the watch must not go on with later changes
						st := world.NewEtcdWatchStream()
						st.SendErrOnce = fmt.Errorf("transient transport error")
						allWritten := false
						// the refused Send hangs until the later changes are committed (and queued behind it)
						st.BeforeFail = func() { s.YieldUntil("hostile.send", func() bool { return allWritten }) }
						s.Go(fmt.Sprintf("hew%d.%d", ci, i), -1, func() {
							call(desc, func() error { return sn.Etcd.Watch(st) })
						})
						wp := fmt.Sprintf("%s/sendonce-%d-%d/", prefix, ci, i)
						st.Reqs <- &pb.WatchRequest{RequestUnion: &pb.WatchRequest_CreateRequest{CreateRequest: &pb.WatchCreateRequest{Key: []byte(wp), RangeEnd: []byte(wp + "\xff")}}}
						s.YieldIdle("hostile.watch")
						var revs []int64
						for j := 0; j < 4; j++ {
							if resp, e := sn.Brain.Create(ctx, &proto.CreateRequest{Key: []byte(fmt.Sprintf("%sk%d", wp, j)), Value: []byte("x")}); e == nil && resp.Succeeded {
								revs = append(revs, int64(resp.Header.GetRevision()))
							}
							s.Yield("hostile.watch")
						}
						if len(revs) > 0 {
							target := uint64(revs[len(revs)-1])
							s.YieldUntil("hostile.watch", func() bool { return sn.B.GetCurrentRevision() >= target })
						}
						s.YieldIdle("hostile.watch")
						allWritten = true
						s.YieldIdle("hostile.watch")
						if st.FailedSends > 0 {
							out.probe("watch-send-failed-once")
							// what the client got: a prefix of the changes, never something after the one that was lost
							var got []int64
							for _, rp := range st.Snapshot() {
								for _, ev := range rp.Events {
									got = append(got, ev.Kv.ModRevision)
								}
							}
							for gi, g := range got {
								if gi >= len(revs) || g != revs[gi] {
									out.violate(P, "event-delivered-after-a-lost-one", "event-delivered-after-a-lost-one api=etcd",
										"an etcd watch whose stream refused one event-carrying response went on delivering: the client received changes %v of %v (a change it never got lies before some it did)", got, revs)
									break
								}
							}
						}
						st.Cancel()
						return nil
					case "etcd.watch-sendfail-on-event":
						// the watch is created, then the client goes away: pushing the first change fails
						st := world.NewEtcdWatchStream()
						st.SendErrOnEvents = fmt.Errorf("transport is closing")
						s.Go(fmt.Sprintf("hew%d.%d", ci, i), -1, func() {
							call(desc, func() error { return sn.Etcd.Watch(st) })
						})
						st.Reqs <- &pb.WatchRequest{RequestUnion: &pb.WatchRequest_CreateRequest{CreateRequest: &pb.WatchCreateRequest{Key: []byte(prefix + "/"), RangeEnd: []byte(prefix + "0")}}}
						s.YieldIdle("hostile.watch")
						wk := fmt.Sprintf("%s/sendfail-%d-%d", prefix, ci, i)
						if resp, e := sn.Brain.Create(ctx, &proto.CreateRequest{Key: []byte(wk), Value: []byte("x")}); e == nil && resp.Succeeded {
							target := resp.Header.GetRevision()
							s.YieldUntil("hostile.watch", func() bool { return sn.B.GetCurrentRevision() >= target })
						}
						s.YieldIdle("hostile.watch")
						st.Cancel()
						return nil
					case "etcd.watch", "etcd.watch-negative", "etcd.watch-cancel-unknown", "etcd.watch-sendfail":
						st := world.NewEtcdWatchStream()
						s.Go(fmt.Sprintf("hew%d.%d", ci, i), -1, func() {
							call(desc, func() error { return sn.Etcd.Watch(st) })
						})
						start := rev
						if op.API == "etcd.watch-negative" && start > 0 {
							start = -start
						}
						switch op.API {
						case "etcd.watch-cancel-unknown":
							st.Reqs <- &pb.WatchRequest{RequestUnion: &pb.WatchRequest_CancelRequest{CancelRequest: &pb.WatchCancelRequest{WatchId: rev}}}
							st.Reqs <- &pb.WatchRequest{}
						case "etcd.watch-sendfail":
							st.SendErr = fmt.Errorf("transport is closing")
							fallthrough
						default:
							st.Reqs <- &pb.WatchRequest{RequestUnion: &pb.WatchRequest_CreateRequest{CreateRequest: &pb.WatchCreateRequest{Key: key, RangeEnd: end, StartRevision: start}}}
						}
						s.Yield("hostile.watch")
						s.Yield("hostile.watch")
						st.Cancel()
						return nil
					}
					return nil
				})
				s.Note("hostile %d.%d %s -> %v", ci, i, op.API, e != nil)
				if i%3 == 2 || strings.Contains(op.API, "update") || strings.Contains(op.API, "delete") {
					probe(desc)
				}
			}
			done++
		})
	}
	s.Settle()
	for steps := 0; steps < 120000 && done < len(sc.Clients); steps++ {
		if !s.Step() {
			if w.S.SimTime() > 400*time.Second {
				break
			}
			s.Advance(250 * time.Millisecond)
		}
	}
	if done < len(sc.Clients) {
		if len(out.Violations) == 0 {
			out.violate(P, "request-never-returned", "request-never-returned", "hostile clients did not finish: %v", stuckTasks(w))
		}
	} else {
		fin := false
		s.Go("final-probe", -1, func() { probe("end of run"); fin = true })
		s.Settle()
		for steps := 0; steps < 20000 && !fin; steps++ {
			if !s.Step() {
				s.Advance(250 * time.Millisecond)
			}
		}
		if !fin && len(out.Violations) == 0 {
			out.violate(P, "node-stopped-serving", "node-stopped-serving after=end", "final probe did not finish: %v", stuckTasks(w))
		}
	}
	pw.Cancel()
	// every metric name always with one kind and one label-name set (the real client panics on the second shape)
	for _, bad := range sn.M.Inconsistent() {
		name := strings.SplitN(bad, ":", 2)[0]
		out.violate(P, "metric-label-set", "metric-label-set name="+name, "metric emitted with different kinds / label-name sets: %s", bad)
	}
	out.Fired = w.KV.Fired
	reportLockLeaks("C20", w, out)
	c20MetricPanics(sn.M, out)
	for _, f := range w.Fatals {
		// klog.Fatal ends a real node's process
		msg := f
		if i := strings.Index(msg, "] "); i > 0 {
			msg = msg[i+2:]
		}
		out.violate(P, "node-exited", "node-exited "+clipS(msg), "the node ended its own process (klog.Fatal): %s", f)
	}
	out.NonTrivial = probeN > 0
	out.Steps = s.StepNo()
	out.SimMs = s.SimTime().Milliseconds()
	out.Hash = s.Hash()
	out.Hazards = s.Hazards
	out.SiteHits = s.SiteHits
	out.Ops = probeN
	out.StateHash = stateHash(w)
	out.Trace = s.Trace
	for name := range sn.M.Shapes {
		out.probe("metric:" + name)
	}
}

// c20MetricPanics: a panic inside the real metrics client is a node crash in production
func c20MetricPanics(m *world.RecMetrics, out *Outcome) {
	for _, p := range m.Panics {
		name := strings.SplitN(p, ":", 2)[0]
		out.violate("C20", "metric-emission-panic", "metric-emission-panic name="+name, "the production metrics client panicked while emitting %s", p)
	}
}

// c20Emissions drives the production metrics wrapper alone: several tasks emit the same few metric
// names for the first time, the scheduler deciding who passes the vector-miss point when. Each name
// always comes with one kind and one label-name set, so no emission may panic and every emission
// must be counted.
func c20Emissions(t *testing.T, sc *world.Scenario, out *Outcome) {
	w, err := world.New(sc)
	if err != nil {
		out.Infra = err.Error()
		return
	}
	defer w.Teardown()
	s := w.S
	m := world.NewRecMetrics(world.RealMetrics)
	done := 0
	for ci := range sc.Clients {
		ci := ci
		s.Go(fmt.Sprintf("emitter%d", ci), -1, func() {
			for _, op := range sc.Clients[ci].Ops {
				s.Yield("emit.step")
				// kind and label names are a function of the metric name: a consistent program
				name := op.API + "." + op.Key
				tags := []metrics.T{metrics.Tag("method", fmt.Sprint(op.Limit))}
				if op.Key == "m0" {
					tags = nil
				}
				out.probe("emit-" + op.API)
				switch op.API {
				case "counter":
					m.EmitCounter(name, 1, tags...)
				case "gauge":
					m.EmitGauge(name, 1, tags...)
				default:
					m.EmitHistogram(name, 1, tags...)
				}
			}
			done++
		})
	}
	s.Settle()
	for steps := 0; steps < 20000 && done < len(sc.Clients); steps++ {
		if !s.Step() {
			s.Advance(100 * time.Millisecond)
		}
	}
	if done < len(sc.Clients) {
		out.violate("C20", "request-never-returned", "emission-never-returned", "metric emitters did not finish: %v", stuckTasks(w))
	}
	c20MetricPanics(m, out)
	if s.SiteHits["prom.vec.miss"] > 0 {
		out.probe("vector-miss-yield")
	}
	out.NonTrivial = true
	out.Steps = s.StepNo()
	out.SimMs = s.SimTime().Milliseconds()
	out.Hash = s.Hash()
	out.Hazards = s.Hazards
	out.SiteHits = s.SiteHits
	out.Ops = done
	out.Trace = s.Trace
}

func stuckOf(w *world.World) string { return strings.Join(stuckTasks(w), " ") }

func init() {
	register(&Prop{ID: "C20", Gen: genC20, Custom: c20Custom})
}
