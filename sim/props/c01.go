package props

import (
	"verif/sim/rt"
	"verif/sim/world"
)

func init() {
	register(&Prop{
		ID: "C01",
		Gen: func(r *rt.Rand, tier string, idx int) *world.Scenario {
			o := writeOpts{}
			if idx%5 == 4 {
				o.faults = "err"
			}
			if idx%5 == 3 {
				o.compactor = true
			}
			return genWrites(r, tier, idx, o)
		},
		Epilogue: writesEpilogue,
		Check:    checkC01,
	})
	register(&Prop{
		ID: "C02",
		Gen: func(r *rt.Rand, tier string, idx int) *world.Scenario {
			return genWrites(r, tier, idx, writeOpts{reads: true})
		},
		Epilogue: writesEpilogue,
		Check:    checkC02,
	})
	register(&Prop{
		ID: "C04",
		Gen: func(r *rt.Rand, tier string, idx int) *world.Scenario {
			o := writeOpts{future: true}
			if idx%4 == 3 {
				o.faults = "err"
			}
			return genWrites(r, tier, idx, o)
		},
		Setup:    func(c *Ctx) { c.W.SampleCommitted = true },
		Epilogue: writesEpilogue,
		Check:    checkC04,
	})
}
