// Command driver fans seeded simulation runs out over worker processes,
// classifies what they report, writes replay files and the evidence file.
package main

import (
	"encoding/json"
	"flag"
	"fmt"
	"io"
	"os"
	"os/exec"
	"path/filepath"
	"sort"
	"strconv"
	"strings"
	"sync"
	"time"
)

type violation struct {
	Prop   string `json:"prop"`
	Rule   string `json:"rule"`
	Sig    string `json:"sig"`
	Detail string `json:"detail"`
}

type failure struct {
	Violation violation       `json:"violation"`
	Scenario  json.RawMessage `json:"scenario"`
	Original  int             `json:"original_ops"`
	Shrunk    int             `json:"shrunk_ops"`
	Hash      uint64          `json:"hash"`
	RunIndex  int             `json:"run_index"`
	Trace     []string        `json:"trace,omitempty"`
}

type summary struct {
	Runs        int               `json:"runs"`
	Inconcl     int               `json:"inconclusive"`
	Infra       []string          `json:"infra"`
	Steps       uint64            `json:"steps"`
	SimMs       int64             `json:"sim_ms"`
	WallS       float64           `json:"wall_s"`
	Probes      map[string]int    `json:"probes"`
	Fired       map[string]int    `json:"fired"`
	SiteHits    map[string]uint64 `json:"site_hits"`
	SchedHashes []uint64          `json:"sched_hashes"`
	NTHashes    []uint64          `json:"nt_hashes"`
	StateHashes []uint64          `json:"state_hashes"`
	Hazards     int               `json:"hazards"`
	HazardRuns  []int             `json:"hazard_runs,omitempty"`
	Samples     []json.RawMessage `json:"samples"`
	Failures    []failure         `json:"failures"`
	Classes     map[string]int    `json:"classes"`
	Engines     map[string]int    `json:"engines"`
	Ops         int               `json:"ops"`
	KnownHits   map[string]int    `json:"known_hits"`
}

type finding struct {
	Property string `json:"property"`
	Sig      string `json:"sig"`
	What     string `json:"what"`
}

type fixedEntry struct {
	Property string `json:"property"`
	Commit   string `json:"commit"`
	What     string `json:"what"`
	Sig      string `json:"sig,omitempty"`
}

type knownFile struct {
	Findings []finding    `json:"findings"`
	Fixed    []fixedEntry `json:"fixed"`
}

type tierCfg struct {
	BudgetS int // wall-clock budget of the seeded search
	Chunk   int // runs per worker process (bounded because abandoned bubbles leak)
	MaxRuns int
}

type propCfg struct {
	Race       bool
	Level      string
	Rule       string
	NonTrivial string
	Quick      tierCfg
	Thorough   tierCfg
	Assume     []string
	Real       []string
	Stub       []string
}

var outRoot string

func main() {
	verif := flag.String("verif", "/verif", "verif directory")
	bin := flag.String("bin", "/verif/.build/sim.test", "worker test binary")
	replay := flag.String("replay", "", "replay file")
	workers := flag.Int("workers", 16, "parallel worker processes")
	outDir := flag.String("out", "", "write evidence and replays here instead of the verif directory (sensitivity runs)")
	flag.Parse()
	outRoot = *verif
	if *outDir != "" {
		outRoot = *outDir
	}
	if flag.NArg() < 1 {
		fmt.Fprintln(os.Stderr, "usage: driver [flags] <property> [quick|thorough]")
		os.Exit(2)
	}
	prop := flag.Arg(0)
	tier := "quick"
	if flag.NArg() > 1 {
		tier = flag.Arg(1)
	}
	if t := os.Getenv("VERIF_TIER"); t != "" && flag.NArg() < 2 {
		tier = t
	}
	cfg, ok := configs[prop]
	if !ok {
		fmt.Fprintf(os.Stderr, "no configuration for property %s\n", prop)
		os.Exit(2)
	}
	seed := uint64(20260925)
	if s := os.Getenv("VERIF_SEED"); s != "" {
		if v, err := strconv.ParseUint(s, 10, 64); err == nil {
			seed = v
		}
	}
	tc := cfg.Quick
	if tier == "thorough" {
		tc = cfg.Thorough
	}
	if cfg.Race {
		if v := os.Getenv("VERIF_BUDGET_S"); v != "" {
			if n, err := strconv.Atoi(v); err == nil {
				tc.BudgetS = n
			}
		}
		os.Exit(raceMain(*verif, prop, tier, seed, cfg, tc, *replay))
	}
	if *replay != "" {
		os.Exit(doReplay(*bin, prop, *replay))
	}
	if v := os.Getenv("VERIF_BUDGET_S"); v != "" {
		if n, err := strconv.Atoi(v); err == nil {
			tc.BudgetS = n
		}
	}
	start := time.Now()
	tmp, err := os.MkdirTemp("", "verif-driver-")
	if err != nil {
		fmt.Fprintln(os.Stderr, err)
		os.Exit(2)
	}
	defer os.RemoveAll(tmp)

	var mu sync.Mutex
	var sums []*summary
	var infra []string
	var crashes []failure
	next := 0
	deadline := start.Add(time.Duration(tc.BudgetS) * time.Second)
	var wg sync.WaitGroup
	stop := false
	for wk := 0; wk < *workers; wk++ {
		wg.Add(1)
		go func(wk int) {
			defer wg.Done()
			for {
				mu.Lock()
				if stop || time.Now().After(deadline) || next >= tc.MaxRuns {
					mu.Unlock()
					return
				}
				from := next
				next += tc.Chunk
				to := next
				if to > tc.MaxRuns {
					to = tc.MaxRuns
				}
				mu.Unlock()
				out := filepath.Join(tmp, fmt.Sprintf("w%d-%d.json", wk, from))
				left := int(time.Until(deadline).Seconds()) + 1
				cmd := exec.Command(*bin, "-test.run", "^TestWorker$", "-test.timeout", "0")
				cmd.Env = append(os.Environ(), "VERIF_PROP="+prop, "VERIF_TIER="+tier, fmt.Sprintf("VERIF_SEED=%d", seed),
					fmt.Sprintf("VERIF_FROM=%d", from), fmt.Sprintf("VERIF_TO=%d", to), "VERIF_OUT="+out,
					fmt.Sprintf("VERIF_BUDGET_S=%d", left), "GOMAXPROCS=2", "VERIF_KNOWN="+filepath.Join(*verif, "known_findings.json"))
				errLog, _ := os.Create(out + ".stderr")
				cmd.Stderr = errLog
				cmd.Stdout = errLog
				err := cmd.Run()
				errLog.Close()
				b, rerr := os.ReadFile(out)
				mu.Lock()
				if err != nil || rerr != nil {
					tail := tailOf(out+".stderr", 6000)
					if f, ok := crashFailure(*bin, prop, out, tail); ok {
						crashes = append(crashes, f)
					} else {
						infra = append(infra, fmt.Sprintf("worker runs [%d,%d): %v %v\n%s", from, to, err, rerr, tail))
					}
					stop = true
					mu.Unlock()
					return
				}
				var s summary
				if jerr := json.Unmarshal(b, &s); jerr != nil {
					infra = append(infra, "bad worker output: "+jerr.Error())
					stop = true
					mu.Unlock()
					return
				}
				sums = append(sums, &s)
				if len(s.Failures) > 0 {
					// enough to report; let running workers finish their chunk
					nf := 0
					for _, x := range sums {
						nf += len(x.Failures)
					}
					if nf >= 6 {
						stop = true
					}
				}
				mu.Unlock()
				os.Remove(out)
				os.Remove(out + ".stderr")
			}
		}(wk)
	}
	wg.Wait()
	wall := time.Since(start).Seconds()

	if len(infra) > 0 {
		fmt.Fprintf(os.Stderr, "INFRASTRUCTURE ERROR (not a verdict):\n%s\n", strings.Join(infra, "\n"))
		os.Exit(2)
	}
	// aggregate
	agg := &summary{KnownHits: map[string]int{}, Probes: map[string]int{}, Fired: map[string]int{}, SiteHits: map[string]uint64{}, Classes: map[string]int{}, Engines: map[string]int{}}
	sched, nt, states := map[uint64]bool{}, map[uint64]bool{}, map[uint64]bool{}
	for _, s := range sums {
		agg.Runs += s.Runs
		agg.Inconcl += s.Inconcl
		agg.Steps += s.Steps
		agg.SimMs += s.SimMs
		agg.Hazards += s.Hazards
		agg.HazardRuns = append(agg.HazardRuns, s.HazardRuns...)
		agg.Ops += s.Ops
		agg.Infra = append(agg.Infra, s.Infra...)
		for k, v := range s.Probes {
			agg.Probes[k] += v
		}
		for k, v := range s.Fired {
			agg.Fired[k] += v
		}
		for k, v := range s.SiteHits {
			agg.SiteHits[k] += v
		}
		for k, v := range s.Classes {
			agg.Classes[k] += v
		}
		for k, v := range s.KnownHits {
			agg.KnownHits[k] += v
		}
		for k, v := range s.Engines {
			agg.Engines[k] += v
		}
		for _, h := range s.SchedHashes {
			sched[h] = true
		}
		for _, h := range s.NTHashes {
			nt[h] = true
		}
		for _, h := range s.StateHashes {
			states[h] = true
		}
		if len(agg.Samples) < 3 {
			agg.Samples = append(agg.Samples, s.Samples...)
		}
		agg.Failures = append(agg.Failures, s.Failures...)
	}
	agg.Failures = append(agg.Failures, crashes...)
	if prop == "C02" {
		b := 8 * time.Second
		if tier == "thorough" {
			b = time.Duration(tc.BudgetS/6+5) * time.Second
		}
		fs := freePhase(*bin, prop, seed, b)
		if len(fs.Infra) > 0 {
			fmt.Fprintf(os.Stderr, "INFRASTRUCTURE ERROR in the free-running phase (not a verdict):\n%s\n", strings.Join(fs.Infra, "\n"))
			os.Exit(2)
		}
		agg.Failures = append(agg.Failures, fs.Failed...)
		agg.Probes["free-running-writer-workloads"] += fs.Runs
		agg.Probes["free-running-write-requests"] += int(fs.Ops)
		wall += fs.WallS
	}
	if len(agg.Infra) > 0 {
		fmt.Fprintf(os.Stderr, "INFRASTRUCTURE ERROR inside runs (not a verdict):\n%s\n", strings.Join(agg.Infra, "\n"))
		os.Exit(2)
	}
	if agg.Runs == 0 && len(crashes) == 0 {
		fmt.Fprintln(os.Stderr, "INFRASTRUCTURE ERROR: no runs executed")
		os.Exit(2)
	}
	if agg.Runs == 0 {
		agg.Runs = len(crashes)
	}

	// classify failures
	var known knownFile
	if b, err := os.ReadFile(filepath.Join(*verif, "known_findings.json")); err == nil {
		if err := json.Unmarshal(b, &known); err != nil {
			fmt.Fprintln(os.Stderr, "known_findings.json: "+err.Error())
			os.Exit(2)
		}
	}
	sort.Slice(agg.Failures, func(i, j int) bool { return agg.Failures[i].RunIndex < agg.Failures[j].RunIndex })
	exit := 0
	printedKnown := map[string]bool{}
	reported := map[string]bool{}
	nviol := 0
	os.MkdirAll(filepath.Join(outRoot, "replays", prop), 0o755)
	for _, f := range agg.Failures {
		key := f.Violation.Prop + "|" + f.Violation.Sig
		isKnown := false
		for _, k := range known.Findings {
			if k.Property == f.Violation.Prop && k.Sig == f.Violation.Sig {
				isKnown = true
				if !printedKnown[key] {
					printedKnown[key] = true
					fmt.Printf("KNOWN-FINDING: property=%s %s\n", k.Property, k.What)
				}
			}
		}
		if isKnown || reported[key] {
			continue
		}
		reported[key] = true
		nviol++
		name := fmt.Sprintf("%s-seed%d-run%d-%s.json", prop, seed, f.RunIndex, sanitize(f.Violation.Rule))
		path := filepath.Join(outRoot, "replays", prop, name)
		rf := map[string]interface{}{"property": f.Violation.Prop, "violation": f.Violation, "scenario": f.Scenario, "hash": f.Hash,
			"trace": f.Trace, "note": fmt.Sprintf("shrunk from %d to %d operations; VERIF_SEED=%d run index %d; replay: bin/check %s --replay %s", f.Original, f.Shrunk, seed, f.RunIndex, prop, path)}
		b, _ := json.MarshalIndent(rf, "", " ")
		os.WriteFile(path, b, 0o644)
		fmt.Printf("VIOLATION property=%s replay=%s\n", f.Violation.Prop, path)
		fmt.Printf("  rule=%s: %s\n", f.Violation.Rule, f.Violation.Detail)
		exit = 1
	}
	// known findings listed for this property are always announced (the file is
	// static; the check never adds to it)
	for _, k := range known.Findings {
		if k.Property == prop && !printedKnown[k.Property+"|"+k.Sig] {
			if n := agg.KnownHits[k.Property+"|"+k.Sig]; n > 0 {
				fmt.Printf("KNOWN-FINDING: property=%s %s (re-encountered in %d runs)\n", k.Property, k.What, n)
			} else {
				fmt.Printf("KNOWN-FINDING: property=%s %s (not re-encountered in this run)\n", k.Property, k.What)
			}
		}
	}

	if agg.Hazards > 0 {
		fmt.Fprintf(os.Stderr, "WARNING: %d determinism hazards (goroutines the scheduler could not tell apart registered in one step, or engine calls by untracked goroutines); replays of such runs may differ; run indexes %v\n", agg.Hazards, agg.HazardRuns)
	}
	writeEvidence(*verif, prop, tier, seed, cfg, agg, len(sched), len(nt), len(states), wall, nviol, known)
	fmt.Printf("%s %s: %d runs, %d steps, %.0f simulated s, %d distinct histories (%d non-trivial), %.1fs wall, %d violation(s)\n",
		prop, tier, agg.Runs, agg.Steps, float64(agg.SimMs)/1000, len(sched), len(nt), wall, nviol)
	os.Exit(exit)
}

// crashFailure: a worker died while executing a run. If its watchdog found node code waiting for a sync
// lock that nobody releases, the node is wedged: requests are never answered, which every property's
// workload relies on (rule node-wedged, any property). If the death is a Go panic / fatal exit with
// frames of the repository on the stack and the same scenario kills a fresh process again, it is
// a violation of "no request can crash a node" (C20); for other properties it stays an
// infrastructure error (exit 2) with the stack.
func crashFailure(bin, prop, out, tail string) (failure, bool) {
	if i := strings.Index(tail, "WATCHDOG-WEDGE: "); i >= 0 {
		// the worker's watchdog found node code waiting for a lock nobody releases: the node is wedged
		line := tail[i:]
		if j := strings.Index(line, "\n"); j > 0 {
			line = line[:j]
		}
		where := line
		if j := strings.Index(where, "lock: "); j > 0 {
			where = where[j+6:]
		}
		b, err := os.ReadFile(out + ".current")
		if err != nil {
			return failure{}, false
		}
		var cur struct {
			RunIndex int             `json:"run_index"`
			Scenario json.RawMessage `json:"scenario"`
		}
		if json.Unmarshal(b, &cur) != nil {
			return failure{}, false
		}
		return failure{RunIndex: cur.RunIndex, Scenario: cur.Scenario, Violation: violation{Prop: prop, Rule: "node-wedged", Sig: "node-wedged " + where,
			Detail: "the run stood still until the watchdog fired: " + strings.TrimPrefix(line, "WATCHDOG-WEDGE: ") + " (replaying re-executes the scenario and waits for the watchdog again)"}}, true
	}
	// A Go panic of node code (on a background goroutine: the sequencer, the retry loop, a watch) ends a real
	// node; for every property that is a failure of the node under the workload at hand. A panic whose
	// innermost non-runtime frame is the harness' own stays an infrastructure error.
	if prop != "C20" && !panicInNodeCode(tail) {
		return failure{}, false
	}
	if !(strings.Contains(tail, "panic:") || strings.Contains(tail, "fatal error:") || strings.Contains(tail, "goroutine ")) || !strings.Contains(tail, "github.com/kubewharf/kubebrain/") {
		return failure{}, false
	}
	b, err := os.ReadFile(out + ".current")
	if err != nil {
		return failure{}, false
	}
	var cur struct {
		RunIndex int             `json:"run_index"`
		Scenario json.RawMessage `json:"scenario"`
	}
	if json.Unmarshal(b, &cur) != nil {
		return failure{}, false
	}
	// confirm in a fresh process
	rp := out + ".crash-replay.json"
	rf, _ := json.Marshal(map[string]interface{}{"property": prop, "scenario": cur.Scenario, "violation": violation{Prop: prop, Rule: "process-crash"}})
	os.WriteFile(rp, rf, 0o644)
	cmd := exec.Command(bin, "-test.run", "^TestWorker$", "-test.timeout", "0")
	cmd.Env = append(os.Environ(), "VERIF_PROP="+prop, "VERIF_REPLAY="+rp, "VERIF_OUT="+out+".crash-out", "GOMAXPROCS=2")
	ob, rerr := cmd.CombinedOutput()
	if rerr == nil {
		return failure{}, false // did not die again: not reproducible, treat as infrastructure
	}
	where := ""
	for _, line := range strings.Split(string(ob), "\n") {
		if strings.Contains(line, "github.com/kubewharf/kubebrain/") && strings.Contains(line, "(") && where == "" {
			where = strings.TrimSpace(line)
			if i := strings.LastIndex(where, "("); i > 0 {
				where = where[:i] // drop the argument values: they are addresses
			}
		}
	}
	first := ""
	for _, line := range strings.Split(string(ob), "\n") {
		if strings.HasPrefix(line, "panic:") || strings.HasPrefix(line, "fatal error:") {
			first = line
			break
		}
	}
	return failure{Violation: violation{Prop: prop, Rule: "process-crash", Sig: "process-crash at=" + where, Detail: fmt.Sprintf("the node process died: %s at %s", first, where)},
		Scenario: cur.Scenario, RunIndex: cur.RunIndex}, true
}

// panicInNodeCode: the text holds a Go panic whose first frame outside the runtime belongs to the repository
// or to a library it called (not to verif/sim, and not to the testing package).
func panicInNodeCode(tail string) bool {
	i := strings.Index(tail, "\npanic: ")
	if i < 0 {
		if !strings.HasPrefix(tail, "panic: ") {
			return false
		}
		i = 0
	}
	rest := tail[i:]
	j := strings.Index(rest, "\ngoroutine ")
	if j < 0 {
		return false
	}
	lines := strings.Split(rest[j+1:], "\n")
	sawRepo := false
	first := ""
	for _, l := range lines[1:] {
		if l == "" {
			break
		}
		if strings.HasPrefix(l, "\t") || strings.HasPrefix(l, "created by ") {
			continue
		}
		if strings.HasPrefix(l, "runtime.") || strings.HasPrefix(l, "panic(") || strings.HasPrefix(l, "runtime/") {
			continue
		}
		if first == "" {
			first = l
		}
		if strings.Contains(l, "github.com/kubewharf/kubebrain/") {
			sawRepo = true
		}
	}
	if first == "" || strings.HasPrefix(first, "verif/sim") || strings.HasPrefix(first, "testing.") {
		return false
	}
	return sawRepo || strings.Contains(rest, "github.com/kubewharf/kubebrain/")
}

func sanitize(s string) string {
	return strings.Map(func(r rune) rune {
		if (r >= 'a' && r <= 'z') || (r >= 'A' && r <= 'Z') || (r >= '0' && r <= '9') || r == '-' {
			return r
		}
		return '_'
	}, s)
}

func tailOf(path string, n int) string {
	b, err := os.ReadFile(path)
	if err != nil {
		return ""
	}
	if len(b) > n {
		b = b[len(b)-n:]
	}
	return string(b)
}

func writeEvidence(verif, prop, tier string, seed uint64, cfg propCfg, a *summary, nsched, nnt, nstates int, wall float64, nviol int, known knownFile) {
	zero := []string{}
	for _, p := range expectedProbes[prop] {
		if a.Probes[p] == 0 {
			zero = append(zero, p)
		}
	}
	var samples []interface{}
	for _, s := range a.Samples {
		var v interface{}
		json.Unmarshal(s, &v)
		samples = append(samples, v)
	}
	if len(samples) == 0 {
		samples = append(samples, "no sample recorded")
	}
	kf := []string{}
	for _, k := range known.Findings {
		if k.Property == prop {
			kf = append(kf, k.Sig)
		}
	}
	cov := map[string]interface{}{
		"evaluations":           a.Runs,
		"distinct_nontrivial":   nnt,
		"rule":                  cfg.Rule + " Non-trivial: " + cfg.NonTrivial + " Distinct: different hash of the full event log (task/site sequence, responses, delivered events).",
		"samples":               samples,
		"distinct_histories":    nsched,
		"distinct_final_states": nstates,
		"scheduler_steps":       a.Steps,
		"client_operations":     a.Ops,
		"simulated_seconds":     float64(a.SimMs) / 1000,
		"runs_per_hour":         float64(a.Runs) / wall * 3600,
		"seeds_per_hour":        float64(a.Runs) / wall * 3600,
		"faults_fired":          a.Fired,
		"yield_site_hits":       a.SiteHits,
		"reach_probes":          a.Probes,
		"probes_never_hit":      zero,
		"run_classes":           a.Classes,
		"engines":               a.Engines,
		"inconclusive_runs":     a.Inconcl,
		"determinism_hazards":   a.Hazards,
		"real_components":       cfg.Real,
		"stubbed_components":    cfg.Stub,
		"known_findings":        kf,
		"known_finding_hits":    a.KnownHits,
	}
	if b, err := os.ReadFile(filepath.Join(verif, "selftest", "determinism-"+prop+".json")); err == nil {
		var d interface{}
		if json.Unmarshal(b, &d) == nil {
			cov["determinism_selftest_last"] = d
		}
	}
	ev := map[string]interface{}{
		"property_id": prop, "tier": tier, "seed": seed, "level": cfg.Level, "coverage": cov,
		"assumptions": cfg.Assume, "wall_s": wall, "violations": nviol,
	}
	b, _ := json.MarshalIndent(ev, "", " ")
	os.MkdirAll(filepath.Join(outRoot, "evidence"), 0o755)
	if err := os.WriteFile(filepath.Join(outRoot, "evidence", prop+".json"), b, 0o644); err != nil {
		fmt.Fprintln(os.Stderr, err)
		os.Exit(2)
	}
}

func doReplay(bin, prop, path string) int {
	if rb, err := os.ReadFile(path); err == nil {
		var rf struct {
			Violation violation       `json:"violation"`
			Scenario  json.RawMessage `json:"scenario"`
		}
		if json.Unmarshal(rb, &rf) == nil && strings.HasPrefix(rf.Violation.Rule, "free-running-") {
			return freeReplay(bin, prop, path, rf.Scenario, rf.Violation.Rule)
		}
	}
	out, err := os.CreateTemp("", "verif-replay-*.json")
	if err != nil {
		fmt.Fprintln(os.Stderr, err)
		return 2
	}
	out.Close()
	defer os.Remove(out.Name())
	cmd := exec.Command(bin, "-test.run", "^TestWorker$", "-test.timeout", "0")
	cmd.Env = append(os.Environ(), "VERIF_PROP="+prop, "VERIF_REPLAY="+path, "VERIF_OUT="+out.Name(), "GOMAXPROCS=2")
	var errBuf strings.Builder
	cmd.Stderr = io.MultiWriter(os.Stderr, &errBuf)
	if err := cmd.Run(); err != nil {
		if i := strings.Index(errBuf.String(), "WATCHDOG-WEDGE: "); i >= 0 {
			line := errBuf.String()[i:]
			if j := strings.Index(line, "\n"); j > 0 {
				line = line[:j]
			}
			fmt.Printf("  rule=node-wedged: %s\n", strings.TrimPrefix(line, "WATCHDOG-WEDGE: "))
			fmt.Printf("VIOLATION property=%s replay=%s\n", prop, path)
			return 1
		}
		fmt.Fprintln(os.Stderr, "replay worker failed:", err)
		return 2
	}
	b, _ := os.ReadFile(out.Name())
	var res struct {
		Violations   []violation `json:"violations"`
		Hash         uint64      `json:"hash"`
		ExpectedHash uint64      `json:"expected_hash"`
		ExpectedRule string      `json:"expected_rule"`
		Infra        string      `json:"infra"`
		Trace        []string    `json:"trace"`
	}
	if err := json.Unmarshal(b, &res); err != nil {
		fmt.Fprintln(os.Stderr, err)
		return 2
	}
	if res.Infra != "" {
		fmt.Fprintln(os.Stderr, "infrastructure:", res.Infra)
		return 2
	}
	if os.Getenv("VERIF_SHOW_TRACE") != "" {
		for _, l := range res.Trace {
			fmt.Println(l)
		}
	}
	hit := false
	for _, v := range res.Violations {
		fmt.Printf("  rule=%s: %s\n", v.Rule, v.Detail)
		if v.Rule == res.ExpectedRule {
			hit = true
		}
	}
	fmt.Printf("replay hash %d (recorded %d): %s\n", res.Hash, res.ExpectedHash, map[bool]string{true: "identical execution", false: "execution differs from the recorded one (code changed?)"}[res.Hash == res.ExpectedHash])
	if hit {
		fmt.Printf("VIOLATION property=%s replay=%s\n", prop, path)
		return 1
	}
	fmt.Println("not reproduced")
	return 0
}
