package world

import (
	"context"
	"encoding/hex"
	"errors"
	"fmt"
	"github.com/pingcap/kvproto/pkg/kvrpcpb"
	"github.com/tikv/client-go/v2/oracle"
	"github.com/tikv/client-go/v2/tikvrpc"
	"os"
	"reflect"
	"sort"
	"sync"
	"sync/atomic"
	"time"
	"unsafe"

	"github.com/tikv/client-go/v2/testutils"
	"github.com/tikv/client-go/v2/tikv"

	"github.com/kubewharf/kubebrain/pkg/storage"
	ibadger "github.com/kubewharf/kubebrain/pkg/storage/badger"
	imemkv "github.com/kubewharf/kubebrain/pkg/storage/memkv"
	itikv "github.com/kubewharf/kubebrain/pkg/storage/tikv"
)

// ScratchDir is where Badger directories are created (tmpfs when available).
var ScratchDir = func() string {
	if st, err := os.Stat("/dev/shm"); err == nil && st.IsDir() {
		return "/dev/shm"
	}
	return os.TempDir()
}()

// newEngine creates the real inner engine. lazy reports whether batches must
// be buffered until Commit (memkv takes its store mutex in BeginBatchWrite).
func (w *World) newEngine(kind string) (storage.KvStorage, bool, error) {
	switch kind {
	case "", "memkv":
		st := imemkv.NewKvStorage()
		// memkv takes its store mutex in BeginBatchWrite and keeps it until Commit, so nothing may park
		// while a batch is open (lazy mode). Should an engine version not do that, batches are opened
		// eagerly like on the other engines, so that other tasks can commit in between.
		return st, batchHoldsLock(st), nil
	case "badger":
		dir, err := os.MkdirTemp(ScratchDir, "verif-badger-")
		if err != nil {
			return nil, false, err
		}
		st, err := ibadger.NewKvStorage(ibadger.Config{Dir: dir})
		if err != nil {
			os.RemoveAll(dir)
			return nil, false, err
		}
		w.tmpDir = dir
		w.closers = append(w.closers, func() { st.Close(); os.RemoveAll(dir) })
		w.engineDirs = append(w.engineDirs, dir)
		return st, false, nil
	case "tikv":
		rpcClient, cluster, pdClient, err := testutils.NewMockTiKV("", nil)
		if err != nil {
			return nil, false, err
		}
		var splits [][]byte
		if w.Sc != nil && w.Sc.Extra["tikv_regions"] != 0 {
			for _, p := range w.Sc.Parts {
				b, _ := hex.DecodeString(p)
				splits = append(splits, b)
			}
			sort.Slice(splits, func(i, j int) bool { return string(splits[i]) < string(splits[j]) })
			// a region cannot be empty
			var uniq [][]byte
			for _, b := range splits {
				if len(uniq) == 0 || string(uniq[len(uniq)-1]) != string(b) {
					uniq = append(uniq, b)
				}
			}
			splits = uniq
		}
		testutils.BootstrapWithMultiRegions(cluster, splits...)
		// several client connections over the one cluster, as in production (200 there): each has its own
		// timestamp oracle and caches, and the adapter goes round them
		var stores []*tikv.KVStore
		var hijack func(tikv.Client) tikv.Client
		if w.Sc != nil && (w.Sc.Extra["tikv_scan_fault"] > 0 || w.Sc.Extra["tikv_get_fault"] > 0 || w.Sc.Extra["tikv_hold_secondary_commits"] > 0) {
			// a fault below the adapter: the n-th scan request to the cluster is answered without a body,
			// or the n-th point read with a key error
			fc := &scanFaultClient{failAt: int32(w.Sc.Extra["tikv_scan_fault"]), getFailAt: int32(w.Sc.Extra["tikv_get_fault"]), w: w,
				holdSecondary: w.Sc.Extra["tikv_hold_secondary_commits"] > 0, committed: map[uint64]bool{}, release: make(chan struct{})}
			w.closers = append(w.closers, func() { close(fc.release) }) // before the stores are closed: they wait for their committers
			hijack = func(c tikv.Client) tikv.Client { return &scanFaultClientConn{Client: c, f: fc} }
		}
		for i := 0; i < 3; i++ {
			store, err := tikv.NewTestTiKVStore(rpcClient, pdClient, hijack, nil, 0)
			if err != nil {
				return nil, false, err
			}
			// (the clients' timestamp oracle can be made to fail below the adapter: World.TiKVOracleOutage)
			store.SetOracle(&flakyOracle{Oracle: store.GetOracle(), w: w})
			stores = append(stores, store)
		}
		st := itikv.NewKvStoreWithStorage(stores)
		w.closers = append(w.closers, func() { st.Close() })
		return st, false, nil
	}
	return nil, false, fmt.Errorf("unknown engine %q", kind)
}

// flakyOracle fails GetTimestamp while the world says so: a placement-driver outage, seen by every client
// connection alike, below the storage adapter.
type flakyOracle struct {
	oracle.Oracle
	w *World
}

func (o *flakyOracle) GetTimestamp(ctx context.Context, opt *oracle.Option) (uint64, error) {
	if o.w.TiKVOracleOutage > 0 {
		o.w.TiKVOracleOutage--
		o.w.TiKVOracleFailed++
		return 0, errors.New("simulated placement driver: tso request failed")
	}
	return o.Oracle.GetTimestamp(ctx, opt)
}

// scanFaultClient counts the scan requests that reach the TiKV mock cluster and breaks one of them.
type scanFaultClient struct {
	failAt    int32
	scans     int32
	getFailAt int32
	gets      int32
	w         *World
	// holdSecondary: the commit requests that follow a transaction's first one (its primary key's) never
	// arrive: the transaction is acknowledged, the locks on its other keys stay until a reader resolves them
	holdSecondary bool
	mu            sync.Mutex
	committed     map[uint64]bool
	release       chan struct{}
}

type scanFaultClientConn struct {
	tikv.Client
	f *scanFaultClient
}

func (c *scanFaultClientConn) SendRequest(ctx context.Context, addr string, req *tikvrpc.Request, timeout time.Duration) (*tikvrpc.Response, error) {
	if req.Type == tikvrpc.CmdScan && c.f.w.TiKVScanFaultArmed && c.f.failAt > 0 {
		if atomic.AddInt32(&c.f.scans, 1) == c.f.failAt {
			c.f.w.TiKVScanFaultFired++
			return &tikvrpc.Response{}, nil
		}
	}
	if req.Type == tikvrpc.CmdCommit && c.f.holdSecondary {
		if cr, ok := req.Req.(*kvrpcpb.CommitRequest); ok {
			c.f.mu.Lock()
			first := !c.f.committed[cr.StartVersion]
			c.f.committed[cr.StartVersion] = true
			c.f.mu.Unlock()
			if !first {
				c.f.w.TiKVSecondaryCommitsHeld++
				select {
				case <-c.f.release: // the run is over
					return nil, errors.New("simulated network: connection closed")
				case <-ctx.Done():
					return nil, ctx.Err()
				}
			}
		}
	}
	if req.Type == tikvrpc.CmdGet && c.f.w.TiKVScanFaultArmed && c.f.getFailAt > 0 {
		if atomic.AddInt32(&c.f.gets, 1) == c.f.getFailAt {
			c.f.w.TiKVGetFaultFired++
			return &tikvrpc.Response{Resp: &kvrpcpb.GetResponse{Error: &kvrpcpb.KeyError{Abort: "injected read fault"}}}, nil
		}
	}
	return c.Client.SendRequest(ctx, addr, req, timeout)
}

// NewEngineFor creates a bare engine for raw-engine properties.
func (w *World) NewEngineFor(kind string) (storage.KvStorage, bool, error) { return w.newEngine(kind) }

// CloseEngines closes what NewEngineFor opened.
func (w *World) CloseEngines() {
	for _, c := range w.closers {
		c()
	}
	w.closers = nil
}

// AbandonEngines removes the engines' directories without closing them: for free-running runs,
// whose backend loops (retry, sequencer) cannot be stopped and would use a closed engine. The
// process ends right after.
func (w *World) AbandonEngines() {
	for _, d := range w.engineDirs {
		os.RemoveAll(d)
	}
	w.closers, w.engineDirs = nil, nil
}

// batchHoldsLock reports whether the engine keeps a sync.Mutex field named "mu" locked while a
// batch is open (probed through reflection; true if it cannot tell).
func batchHoldsLock(st storage.KvStorage) (held bool) {
	held = true
	defer func() { recover() }()
	v := reflect.ValueOf(st)
	if v.Kind() != reflect.Ptr || v.Elem().Kind() != reflect.Struct {
		return
	}
	f := v.Elem().FieldByName("mu")
	if !f.IsValid() || f.Type() != reflect.TypeOf(sync.Mutex{}) {
		return
	}
	mu := (*sync.Mutex)(unsafe.Pointer(f.UnsafeAddr()))
	b := st.BeginBatchWrite()
	if mu.TryLock() {
		mu.Unlock()
		held = false
	}
	b.Commit(context.Background())
	return
}
