//go:build amd64 && !race

package rt

import "sync"

// gword returns the 8-byte word at byte offset off of the running goroutine's descriptor (assembly).
func gword(off uintptr) uint64

// goidOff is the byte offset of the goroutine id inside the runtime's descriptor, found by
// calibration at start-up (it differs between Go releases); -1: not found, use the slow path.
var goidOff = calibrateGoid()

// calibrateGoid finds the one offset at which several goroutines' descriptors hold their own id
// (as printed by runtime.Stack).
func calibrateGoid() int {
	const span = 512
	type sample struct {
		id    uint64
		words [span / 8]uint64
	}
	take := func() sample {
		var s sample
		s.id = goidSlow()
		for i := range s.words {
			s.words[i] = gword(uintptr(i * 8))
		}
		return s
	}
	samples := []sample{take()}
	var wg sync.WaitGroup
	var mu sync.Mutex
	for i := 0; i < 4; i++ {
		wg.Add(1)
		go func() {
			defer wg.Done()
			s := take()
			mu.Lock()
			samples = append(samples, s)
			mu.Unlock()
		}()
	}
	wg.Wait()
	found := -1
	for w := 0; w < span/8; w++ {
		ok := true
		for _, s := range samples {
			if s.words[w] != s.id {
				ok = false
				break
			}
		}
		if ok {
			if found >= 0 {
				return -1 // ambiguous
			}
			found = w * 8
		}
	}
	return found
}

func goid() uint64 {
	if goidOff < 0 {
		return goidSlow()
	}
	return gword(uintptr(goidOff))
}

func goidOffForTest() int { return goidOff }
