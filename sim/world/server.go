package world

import (
	"context"
	"errors"
	"fmt"
	"google.golang.org/grpc/codes"
	"google.golang.org/grpc/status"
	"io"
	"net/http"
	"net/http/httptest"
	"strings"
	"sync"
	"time"

	"go.etcd.io/etcd/api/v3/etcdserverpb"
	"go.etcd.io/etcd/api/v3/mvccpb"
	"google.golang.org/grpc/metadata"

	proto "github.com/kubewharf/kubebrain-client/api/v2rpc"

	"github.com/kubewharf/kubebrain/pkg/server"
	"github.com/kubewharf/kubebrain/pkg/server/brain"
	"github.com/kubewharf/kubebrain/pkg/server/etcd"
	"github.com/kubewharf/kubebrain/pkg/server/service"
	"github.com/kubewharf/kubebrain/pkg/server/service/leader"
)

// ServerNode is a node with the real application-layer server on top of its backend.
type ServerNode struct {
	*Node
	Srv    server.Server
	Etcd   *etcd.RPCServer
	Brain  *brain.Server
	LE     leader.LeaderElection
	Peers  service.PeerService
	Addr   string
	Status http.Handler
	Net    *PeerNet
	Proxy  *ScriptedProxy // set when the node runs with the etcd proxy enabled
}

// PeerNet is the simulated network between nodes (the follower's revision fetch).
type PeerNet struct {
	W       *World
	Servers map[string]*ServerNode
	// Fault decides what happens to the next request: "", loss, http500, http400, timeout, delay, cutbody, stallbody
	Fault    func(from int, host string) string
	Requests int
	Fired    map[string]int
	// LeaderRevAtServe records the leader's committed revision each time /status was really served
	Served []PeerServe
}

// PeerServe is one /status request that reached a handler.
type PeerServe struct {
	From     int
	Host     string
	Step     uint64
	Revision uint64
	Code     int
}

type peerRT struct {
	net  *PeerNet
	from int
}

// RoundTrip routes GET http://<addr>/status to the addressed node's real handler.
func (rt *peerRT) RoundTrip(req *http.Request) (*http.Response, error) {
	n := rt.net
	s := n.W.S
	n.Requests++
	fault := ""
	if n.Fault != nil {
		fault = n.Fault(rt.from, req.URL.Host)
	}
	if fault != "" {
		n.Fired[fault]++
	}
	s.Yield("peer.send", rt.from)
	switch fault {
	case "loss":
		return nil, errors.New("simulated network: connection refused")
	case "timeout":
		// the request never comes back; honour the client's deadline on the fake clock
		<-req.Context().Done()
		return nil, req.Context().Err()
	}
	target := n.Servers[req.URL.Host]
	if target == nil {
		return nil, fmt.Errorf("simulated network: no such host %q", req.URL.Host)
	}
	rec := httptest.NewRecorder()
	switch fault {
	case "http500":
		rec.WriteHeader(500)
		rec.WriteString("internal error")
	case "http400":
		// the election record names a peer that is not leading (stale record, hand-over window): the
		// request reaches the real /status handler of a non-leader - the asking follower's own
		served := false
		for _, sn := range n.Servers {
			if sn.ID == rt.from && !sn.LE.IsLeader() {
				sn.Status.ServeHTTP(rec, req)
				n.Served = append(n.Served, PeerServe{From: rt.from, Host: sn.Addr, Step: s.StepNo(), Revision: sn.B.GetCurrentRevision(), Code: rec.Code})
				served = true
			}
		}
		if !served {
			rec.WriteHeader(400)
			rec.WriteString("i'm not leader, so can't tell you revision")
		}
	default:
		target.Status.ServeHTTP(rec, req)
		n.Served = append(n.Served, PeerServe{From: rt.from, Host: req.URL.Host, Step: s.StepNo(), Revision: target.B.GetCurrentRevision(), Code: rec.Code})
	}
	// the response travels back: the leader may move on meanwhile
	s.Yield("peer.recv", rt.from)
	if fault == "delay" {
		s.Yield("peer.recv.late", rt.from)
	}
	resp := rec.Result()
	if fault == "cutbody" || fault == "stallbody" {
		// status line and headers arrive, the body does not: the connection is cut after half of it, or
		// stalls until the client's deadline
		b, _ := io.ReadAll(resp.Body)
		resp.Body = &brokenBody{data: b[:len(b)/2], stall: fault == "stallbody", ctx: req.Context()}
	}
	return resp, nil
}

// brokenBody delivers the first half of a response body and then fails.
type brokenBody struct {
	data  []byte
	stall bool
	ctx   context.Context
}

func (b *brokenBody) Read(p []byte) (int, error) {
	if len(b.data) > 0 {
		n := copy(p, b.data)
		b.data = b.data[n:]
		return n, nil
	}
	if b.stall {
		<-b.ctx.Done()
		return 0, b.ctx.Err()
	}
	return 0, io.ErrUnexpectedEOF
}

func (b *brokenBody) Close() error { return nil }

// NewPeerNet creates the simulated peer network.
func (w *World) NewPeerNet() *PeerNet {
	return &PeerNet{W: w, Servers: map[string]*ServerNode{}, Fired: map[string]int{}}
}

// AddServer creates a node with the real server on top (elector, peer service, both handler sets).
func (w *World) AddServer(pn *PeerNet, enableProxy bool) *ServerNode {
	return w.AddServerAt(pn, enableProxy, fmt.Sprintf("node-%d:3380", len(w.Nodes)))
}

// AddServerAt starts a node with the given identity (its peer address): a node that comes back after a
// crash has the identity it had before.
func (w *World) AddServerAt(pn *PeerNet, enableProxy bool, addr string) *ServerNode {
	id := len(w.Nodes)
	n := w.addNodeWithIdentity(addr)
	w.S.SpawnNode = id
	srv := server.NewServer(n.B, n.M, server.Config{EnableEtcdProxy: false})
	es, bs, le := server.HandlersForSim(srv)
	sn := &ServerNode{Node: n, Srv: srv, Etcd: es, Brain: bs, LE: le, Addr: addr, Net: pn}
	sn.Peers = es.PeersForSim()
	sn.Status = srv.GetPeerHttpHandlers()["/status"]
	service.SetPeerTransportForSim(sn.Peers, &peerRT{net: pn, from: id})
	if enableProxy {
		sn.Proxy = &ScriptedProxy{Net: pn, From: id}
		service.SetEtcdProxyForSim(sn.Peers, sn.Proxy)
	}
	pn.Servers[addr] = sn
	// let this node's background loops reach their first cooperative point (the retry loop registers
	// at its first tick) before another node is created, so that they are told apart
	w.S.Settle()
	w.S.Advance(1100 * time.Millisecond)
	return sn
}

// ScriptedProxy stands in for the etcd proxy (whose real implementation dials the leader with
// clientv3): it forwards to the current leader's handler object in-process, or fails.
type ScriptedProxy struct {
	Net  *PeerNet
	From int
	Fail bool
	// Unavailable: the proxy has no connection to the leader and answers like the real one then does
	Unavailable bool
	Txns        int
	Wats        int
}

func (p *ScriptedProxy) EtcdProxyEnabled() bool { return true }

func (p *ScriptedProxy) leader() *ServerNode {
	for _, s := range p.Net.Servers {
		if s.LE.IsLeader() && !p.Net.W.S.NodeDead(s.ID) {
			return s
		}
	}
	return nil
}

func (p *ScriptedProxy) Txn(ctx context.Context, txn *etcdserverpb.TxnRequest) (*etcdserverpb.TxnResponse, error) {
	p.Txns++
	l := p.leader()
	if p.Unavailable {
		return nil, status.Error(codes.Unavailable, "no ready right now")
	}
	if p.Fail || l == nil {
		return nil, errors.New("scripted proxy: leader unreachable")
	}
	return l.Etcd.Txn(ctx, txn)
}

func (p *ScriptedProxy) Watch(ctx context.Context, key string, revision uint64) (<-chan []*mvccpb.Event, error) {
	p.Wats++
	return nil, errors.New("scripted proxy: watch forwarding not simulated")
}

// ---- streams ----

type baseStream struct {
	ctx context.Context
}

func (b *baseStream) SetHeader(metadata.MD) error  { return nil }
func (b *baseStream) SendHeader(metadata.MD) error { return nil }
func (b *baseStream) SetTrailer(metadata.MD)       {}
func (b *baseStream) Context() context.Context     { return b.ctx }
func (b *baseStream) SendMsg(m interface{}) error  { return nil }
func (b *baseStream) RecvMsg(m interface{}) error  { return nil }

// EtcdWatchStream is a channel-backed etcdserverpb.Watch_WatchServer.
type EtcdWatchStream struct {
	baseStream
	mu      sync.Mutex
	Reqs    chan *etcdserverpb.WatchRequest
	Resps   []*etcdserverpb.WatchResponse
	SendErr error // when set, Send fails
	// SendErrOnEvents: Send fails only for responses that carry events (the client went away between the
	// creation of its watch and the first change)
	SendErrOnEvents error
	// SendErrOnce: the next event-carrying Send fails, later ones succeed (a transient transport error);
	// FailedSends counts the Sends it refused
	SendErrOnce error
	FailedSends int
	// BeforeFail runs (without the stream's lock) before the refused Send returns: a Send that hangs for a while
	BeforeFail func()
	Cancel     context.CancelFunc
	Returned   bool
	RetErr     error
}

func NewEtcdWatchStream() *EtcdWatchStream {
	ctx, cancel := context.WithCancel(context.Background())
	return &EtcdWatchStream{baseStream: baseStream{ctx: ctx}, Reqs: make(chan *etcdserverpb.WatchRequest, 16), Cancel: cancel}
}

func (s *EtcdWatchStream) Send(r *etcdserverpb.WatchResponse) error {
	s.mu.Lock()
	defer s.mu.Unlock()
	if s.SendErr != nil {
		return s.SendErr
	}
	if s.SendErrOnEvents != nil && len(r.Events) > 0 {
		return s.SendErrOnEvents
	}
	if s.SendErrOnce != nil && len(r.Events) > 0 {
		err := s.SendErrOnce
		s.SendErrOnce = nil
		s.FailedSends++
		if s.BeforeFail != nil {
			s.mu.Unlock()
			s.BeforeFail()
			s.mu.Lock()
		}
		return err
	}
	s.Resps = append(s.Resps, r)
	return nil
}

func (s *EtcdWatchStream) Recv() (*etcdserverpb.WatchRequest, error) {
	// a pending request always wins over a cancelled context: Go's select would choose at random
	select {
	case r, ok := <-s.Reqs:
		if !ok {
			return nil, io.EOF
		}
		return r, nil
	default:
	}
	select {
	case r, ok := <-s.Reqs:
		if !ok {
			return nil, io.EOF
		}
		return r, nil
	case <-s.ctx.Done():
		return nil, s.ctx.Err()
	}
}

// Snapshot returns the responses received so far.
func (s *EtcdWatchStream) Snapshot() []*etcdserverpb.WatchResponse {
	s.mu.Lock()
	defer s.mu.Unlock()
	return append([]*etcdserverpb.WatchResponse(nil), s.Resps...)
}

// BrainWatchStream is a proto.Watch_WatchServer.
type BrainWatchStream struct {
	baseStream
	mu      sync.Mutex
	Resps   []*proto.WatchResponse
	SendErr error
	Cancel  context.CancelFunc
}

func NewBrainWatchStream() *BrainWatchStream {
	ctx, cancel := context.WithCancel(context.Background())
	return &BrainWatchStream{baseStream: baseStream{ctx: ctx}, Cancel: cancel}
}

func (s *BrainWatchStream) Send(r *proto.WatchResponse) error {
	s.mu.Lock()
	defer s.mu.Unlock()
	if s.SendErr != nil {
		return s.SendErr
	}
	s.Resps = append(s.Resps, r)
	return nil
}

func (s *BrainWatchStream) Snapshot() []*proto.WatchResponse {
	s.mu.Lock()
	defer s.mu.Unlock()
	return append([]*proto.WatchResponse(nil), s.Resps...)
}

// BrainRangeStream is a proto.Read_RangeStreamServer.
type BrainRangeStream struct {
	baseStream
	mu      sync.Mutex
	Resps   []*proto.StreamRangeResponse
	SendErr error
}

func NewBrainRangeStream() *BrainRangeStream {
	return &BrainRangeStream{baseStream: baseStream{ctx: context.Background()}}
}

func (s *BrainRangeStream) Send(r *proto.StreamRangeResponse) error {
	s.mu.Lock()
	defer s.mu.Unlock()
	if s.SendErr != nil {
		return s.SendErr
	}
	s.Resps = append(s.Resps, r)
	return nil
}

// WaitLeader runs the scheduler until sn is leader (or the budget is exhausted).
func (w *World) WaitLeader(sn *ServerNode, budget time.Duration) bool {
	deadline := w.S.SimTime() + budget
	for steps := 0; steps < 40000 && !sn.LE.IsLeader(); steps++ {
		if !w.S.Step() {
			if w.S.SimTime() > deadline {
				break
			}
			w.S.Advance(250 * time.Millisecond)
		}
	}
	return sn.LE.IsLeader()
}

// IsUnavailable reports whether err is the role rejection the handlers use.
func IsUnavailable(err error) bool {
	return err != nil && strings.Contains(err.Error(), "Unavailable")
}
