package props

import (
	"encoding/hex"
	"fmt"
	"sort"

	"verif/sim/model"
	"verif/sim/rt"
	"verif/sim/simkv"
	"verif/sim/world"
)

// C13 — range results do not depend on how the engine partitions the key space.

func genC13(r *rt.Rand, tier string, idx int) *world.Scenario {
	sc := &world.Scenario{Prefix: prefix, InitRev: pickInitRev(r), Seed: r.Uint64(), EtcdCompat: true, Engine: "memkv", Class: "seam-partitions"}
	sc.Extra = map[string]int64{"lockstep": 1}
	switch x := r.Intn(10); {
	case x == 0:
		sc.Engine = "badger"
	case x <= 2:
		// single-region TiKV mock, borders from the seam (real regions: class tikv-real-regions below)
		sc.Engine = "tikv"
	}
	keys := []string{prefix + "/a", prefix + "/a/b", prefix + "/a-b", prefix + "/ab", prefix + "/b", prefix + "/pods/ns/p1", prefix + "/pods/ns/p2", "/other/x"}
	keys = keys[:3+r.Intn(len(keys)-2)]
	var cl world.Client
	n := 8 + r.Intn(30)
	if sc.Engine != "memkv" {
		n = 8 + r.Intn(12)
	}
	live := map[string]bool{}
	attempt := 0
	type rec struct {
		k   string
		rev uint64
	}
	var written []rec
	for i := 0; i < n; i++ {
		k := keys[r.Intn(len(keys))]
		v := fmt.Sprintf("v%d", i)
		attempt++
		switch {
		case !live[k]:
			cl.Ops = append(cl.Ops, world.Op{K: "create", Key: k, Val: v})
			live[k] = true
		case r.Chance(0.3):
			cl.Ops = append(cl.Ops, world.Op{K: "delete", Key: k, Rev: world.Rev{M: "known"}})
			live[k] = false
		case r.Chance(0.15):
			cl.Ops = append(cl.Ops, world.Op{K: "update", Key: k, Val: v, Rev: world.Rev{M: "stale", N: 1}}) // fails, still consumes a revision
		default:
			cl.Ops = append(cl.Ops, world.Op{K: "update", Key: k, Val: v, Rev: world.Rev{M: "known"}})
		}
		written = append(written, rec{k, sc.InitRev + uint64(attempt)})
	}
	// partition borders: index records, version records (existing or not), arbitrary well-formed keys, duplicates
	nb := 1 + r.Intn(5)
	for i := 0; i < nb; i++ {
		var b []byte
		switch r.Weighted(25, 35, 20, 10, 10) {
		case 0:
			b = simkv.EncodeKey([]byte(keys[r.Intn(len(keys))]), 0)
		case 1:
			w := written[r.Intn(len(written))]
			b = simkv.EncodeKey([]byte(w.k), w.rev) // in the middle of one key's versions
		case 2:
			b = simkv.EncodeKey([]byte(keys[r.Intn(len(keys))]), sc.InitRev+uint64(r.Intn(n+3)))
		case 3:
			b = simkv.EncodeKey([]byte(prefix+"/"+string(rune('a'+r.Intn(3)))+"x"), uint64(r.Intn(5))) // a raw key that does not exist
		case 4:
			if len(sc.Parts) > 0 {
				b, _ = hex.DecodeString(sc.Parts[r.Intn(len(sc.Parts))]) // duplicate
			} else {
				b = simkv.EncodeKey([]byte(keys[0]), 0)
			}
		}
		sc.Parts = append(sc.Parts, hex.EncodeToString(b))
	}
	sc.Extra["parts_shuffle"] = int64(r.Intn(7))
	if idx%6 == 4 {
		// the borders become real regions of the TiKV mock cluster: the adapter's own GetPartitions runs
		sc.Engine, sc.Class = "tikv", "tikv-real-regions"
		sc.Extra["tikv_regions"] = 1
	}
	// reads
	revs := func() world.Rev {
		switch r.Intn(3) {
		case 0:
			return world.Rev{M: "zero"}
		case 1:
			return world.Rev{M: "init", N: int64(1 + r.Intn(n))}
		}
		return world.Rev{M: "hdrminus", N: int64(r.Intn(4))}
	}
	ranges := [][2]string{{prefix + "/", prefix + "0"}, {"/", "0"}, {prefix + "/a", prefix + "/b"}, {prefix + "/a/", prefix + "/pods0"}}
	cl.Ops = append(cl.Ops, world.Op{K: "waitcommitted"}, world.Op{K: "armtikvfault"}) // (only has an effect in the scan-fault class)
	for i := 0; i < 4+r.Intn(8); i++ {
		rg := ranges[r.Intn(len(ranges))]
		switch r.Weighted(30, 15, 25, 30) {
		case 0:
			cl.Ops = append(cl.Ops, world.Op{K: "list", Key: rg[0], End: rg[1], Rev: revs()})
		case 1:
			cl.Ops = append(cl.Ops, world.Op{K: "count", Key: rg[0], End: rg[1]})
		case 2:
			cl.Ops = append(cl.Ops, world.Op{K: "stream", Key: rg[0], End: rg[1], Rev: revs()})
		case 3:
			cl.Ops = append(cl.Ops, world.Op{K: "streamparts", Key: rg[0], End: rg[1], Rev: revs()})
		}
	}
	if idx%25 == 9 {
		// many keys: a partition's stream then consists of several batches (300 key-values each), which
		// queue up behind a reader that is slower than the scan
		sc.Class += "+many-keys"
		nk := int64(650 + r.Intn(300))
		sc.Prologue = append([]world.Op{{K: "burst", Key: prefix + "/m", Val: "x", Limit: nk, Ms: nk}}, sc.Prologue...)
		sc.MaxSteps = 400000
	}
	if idx%50 == 29 {
		// TiKV, a partition of several hundred internal keys (the client fetches 256 per request), and one scan
		// request below the adapter that comes back without a body while the reads run: the worker retries,
		// what is answered must be complete or an error
		sc.Engine, sc.Class = "tikv", "tikv-scan-request-fault+many-keys"
		sc.Extra["tikv_scan_fault"] = int64(1 + r.Intn(14))
		sc.Extra["tikv_fault_armed_by_op"] = 1
		nk := int64(300 + r.Intn(200))
		sc.Prologue = append([]world.Op{{K: "burst", Key: prefix + "/m", Val: "x", Limit: nk, Ms: nk}}, sc.Prologue...)
		sc.MaxSteps = 400000
	}
	if idx%1500 == 611 {
		// more than a thousand regions (the placement driver's answers come in batches; the stream's buffer
		// holds 1000 batches, one per non-empty partition), read by a client slower than the scan
		sc.Engine, sc.Class = "tikv", "tikv-real-regions+more-than-1024"
		sc.Extra["tikv_regions"] = 1
		nk := 1040 + r.Intn(80)
		sc.Prologue = append([]world.Op{{K: "burst", Key: prefix + "/m", Val: "x", Limit: int64(nk), Ms: int64(nk)}}, sc.Prologue...)
		sc.Parts = nil
		for i := 0; i < nk; i++ {
			sc.Parts = append(sc.Parts, hex.EncodeToString(simkv.EncodeKey([]byte(fmt.Sprintf("%s/m%d", prefix, i)), 0)))
		}
		cl.Ops = append(cl.Ops, world.Op{K: "stream", Key: "/", End: "0", Consume: "lazy"}, world.Op{K: "list", Key: "/", End: "0"}, world.Op{K: "count", Key: "/", End: "0"})
		sc.Inactive = []string{"kv.get", "kv.get.ret", "kv.commit", "kv.commit.ret", "seq.cache", "seq.bcast", "seq.sent", "hub.recv", "client.next"}
		sc.Stick = 0.9
		sc.MaxSteps = 3000000
	}
	if idx%200 == 53 {
		// more regions than the placement driver hands out in one answer (the client asks in batches)
		sc.Engine, sc.Class = "tikv", "tikv-real-regions+more-than-128"
		sc.Extra["tikv_regions"] = 1
		nk := 135 + r.Intn(30)
		sc.Prologue = append([]world.Op{{K: "burst", Key: prefix + "/m", Val: "x", Limit: int64(nk), Ms: int64(nk)}}, sc.Prologue...)
		sc.Parts = nil
		for i := 0; i < nk; i++ {
			sc.Parts = append(sc.Parts, hex.EncodeToString(simkv.EncodeKey([]byte(fmt.Sprintf("%s/m%d", prefix, i)), 0)))
		}
		sc.MaxSteps = 400000
	}
	if idx%10 == 7 {
		// transient iterator errors: a partition scan is retried; what is finally answered must still be right
		sc.Class += "+read-errors"
		sc.Rates.ReadErr = 0.02 + 0.06*r.Float64()
	}
	sc.Clients = []world.Client{cl}
	if sc.MaxSteps == 0 {
		sc.MaxSteps = 60000
	}
	return sc
}

// checkStream verifies the shape of one stream and returns its data.
func checkStream(out *Outcome, P string, name string, bs []world.Batch, rev uint64) (kvs []world.KV, failed bool) {
	nterm := 0
	for i, b := range bs {
		if !b.More {
			nterm++
			if i != len(bs)-1 {
				out.violate(P, "message-after-terminator", "message-after-terminator", "%s: message %d of %d is a terminator", name, i, len(bs))
			}
			if b.Err != "" {
				failed = true
			}
			if len(b.KVs) > 0 {
				out.violate(P, "terminator-carries-data", "terminator-carries-data", "%s: terminator carries %d key-values", name, len(b.KVs))
			}
			if rev != 0 && b.Hdr != rev {
				out.violate(P, "stream-header-revision", "stream-header-revision terminator", "%s: terminator names revision %d, read at %d", name, b.Hdr, rev)
			}
			continue
		}
		if len(b.KVs) == 0 {
			out.violate(P, "empty-data-batch", "empty-data-batch", "%s: data batch %d is empty", name, i)
		}
		if rev != 0 && b.Hdr != rev {
			out.violate(P, "stream-header-revision", "stream-header-revision data-batch", "%s: data batch %d names revision %d, it was read at %d", name, i, b.Hdr, rev)
		}
		kvs = append(kvs, b.KVs...)
	}
	if nterm != 1 {
		out.violate(P, "terminator-count", "terminator-count", "%s: %d terminators", name, nterm)
	}
	return
}

func checkC13(c *Ctx) {
	const P = "C13"
	w, out, m := c.W, c.Out, c.M
	multi := false
	for _, e := range []string{"x"} {
		_ = e
	}
	if w.Stuck {
		// a reader that waits for ever: the stream neither delivered its terminator nor anything else
		for _, r := range w.Recs {
			if !r.Done && r.Client >= 0 && (r.Op.K == "stream" || r.Op.K == "streamparts") {
				out.violate(P, "stream-never-ended", "stream-never-ended", "%s[%s,%s) never delivered a terminator: the reader is still waiting (%s)", r.Op.K, r.Op.Key, r.Op.End, w.StuckWhy)
			}
		}
	}
	for _, r := range w.Recs {
		if !r.Done || r.Err != "" || r.Client < 0 {
			continue
		}
		start, end := string(world.Bytes(r.Op.Key)), string(world.Bytes(r.Op.End))
		switch r.Op.K {
		case "list":
			R := r.RevAbs
			if R == 0 {
				R = r.Hdr
			}
			if R > r.ComInv {
				continue
			}
			want := m.Snap(R, start, end)
			if !model.EqualKVs(kvsOf(r.KVs), want) {
				out.violate(P, "partitioned-list", "partitioned-list", "List[%s,%s) at %d with partition borders %v returned %s, unpartitioned model %s", start, end, R, c.Sc.Parts, fmtKVs(kvsOf(r.KVs)), fmtKVs(want))
			}
		case "count":
			want := m.Snap(r.Hdr, start, end)
			if uint64(len(want)) != r.Count {
				out.violate(P, "partitioned-count", "partitioned-count", "Count[%s,%s) at %d returned %d, model %d", start, end, r.Hdr, r.Count, len(want))
			}
		case "stream":
			R := r.RevAbs
			if R == 0 && len(r.Batches) > 0 {
				R = r.Batches[len(r.Batches)-1].Hdr
			}
			if R > r.ComInv {
				continue
			}
			kvs, failed := checkStream(out, P, fmt.Sprintf("ListByStream[%s,%s)@%d", start, end, R), r.Batches, R)
			if failed {
				continue
			}
			want := m.Snap(R, start, end)
			if !sameKVSet(kvsOf(kvs), want) {
				out.violate(P, "partitioned-stream", "partitioned-stream", "ListByStream[%s,%s) at %d returned %s, unpartitioned model %s", start, end, R, fmtKVs(kvsOf(kvs)), fmtKVs(want))
			}
			if len(r.Batches) > 1 {
				out.probe("stream-with-data")
			}
		case "streamparts":
			R := r.RevAbs
			if R > r.ComInv {
				continue
			}
			if len(r.PartKeys) > 2 {
				multi = true
				out.probe("several-advertised-partitions")
			}
			var all []world.KV
			failed := false
			for i, bs := range r.Streams {
				kvs, f := checkStream(out, P, fmt.Sprintf("partition %d of [%s,%s)@%d", i, start, end, R), bs, R)
				all = append(all, kvs...)
				failed = failed || f
			}
			if failed || len(r.Streams) != len(r.PartKeys)-1 {
				continue
			}
			want := m.Snap(R, start, end)
			if !sameKVSet(kvsOf(all), want) {
				out.violate(P, "concatenated-partition-streams", "concatenated-partition-streams",
					"streams over the %d advertised partitions of [%s,%s) at %d concatenate to %s, unpartitioned model %s (borders %q)", len(r.Streams), start, end, R, fmtKVs(kvsOf(all)), fmtKVs(want), r.PartKeys)
			}
		}
	}
	if len(c.Sc.Parts) > 0 {
		out.NonTrivial = true
	}
	if multi {
		out.probe("multi-partition-stream-read")
	}
	// a border inside one key's versions?
	for _, p := range c.Sc.Parts {
		b, _ := hex.DecodeString(p)
		if raw, rev, ok := simkv.DecodeKey(b); ok && rev > 0 {
			if vs := m.Keys[string(raw)]; len(vs) > 1 {
				out.probe("border-inside-a-keys-versions")
			}
		}
	}
}

// sameKVSet: every key exactly once with the same version; the order of a
// multi-partition stream is not part of the statement.
func sameKVSet(got, want []model.KV) bool {
	if len(got) != len(want) {
		return false
	}
	g := append([]model.KV(nil), got...)
	sort.Slice(g, func(i, j int) bool { return g[i].Key < g[j].Key })
	return model.EqualKVs(g, want)
}

func init() {
	register(&Prop{ID: "C13", Gen: genC13, Check: checkC13})
}
