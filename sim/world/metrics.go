package world

import (
	"fmt"
	"net/http"
	"runtime/debug"
	"sort"
	"strings"
	"sync"

	"google.golang.org/grpc"

	"github.com/kubewharf/kubebrain/pkg/metrics"
)

// RecMetrics records every emission (name, kind, label-name set, last value)
// and forwards to an optional inner client (the real Prometheus one).
type RecMetrics struct {
	mu     sync.Mutex
	Inner  metrics.Metrics
	Shapes map[string]map[string]int // name -> "kind|l1,l2" -> count
	Last   map[string]float64
	Count  map[string]float64
	Panics []string
	// BeforeEmit, when set, runs before an emission is recorded: the world uses it to make the few
	// emissions that node code performs with no lock held at the head of a callback a scheduling point
	BeforeEmit func(name string)
}

func NewRecMetrics(inner metrics.Metrics) *RecMetrics {
	return &RecMetrics{Inner: inner, Shapes: map[string]map[string]int{}, Last: map[string]float64{}, Count: map[string]float64{}}
}

func (r *RecMetrics) GetGrpcServerOption() []grpc.ServerOption { return nil }
func (r *RecMetrics) GetHttpHandlers() map[string]http.Handler { return map[string]http.Handler{} }

func toF(v interface{}) float64 {
	switch x := v.(type) {
	case int:
		return float64(x)
	case int64:
		return float64(x)
	case uint64:
		return float64(x)
	case int32:
		return float64(x)
	case uint32:
		return float64(x)
	case float64:
		return x
	case float32:
		return float64(x)
	}
	return 0
}

func (r *RecMetrics) rec(kind, name string, v interface{}, tags []metrics.T) {
	if r.BeforeEmit != nil {
		r.BeforeEmit(name)
	}
	names := make([]string, len(tags))
	for i, t := range tags {
		names[i] = t.Name
	}
	sort.Strings(names)
	shape := kind + "|" + strings.Join(names, ",")
	r.mu.Lock()
	m := r.Shapes[name]
	if m == nil {
		m = map[string]int{}
		r.Shapes[name] = m
	}
	m[shape]++
	f := toF(v)
	r.Last[name] = f
	if kind == "counter" {
		r.Count[name] += f
	}
	r.mu.Unlock()
}

func (r *RecMetrics) EmitCounter(name string, v interface{}, tags ...metrics.T) error {
	r.rec("counter", name, v, tags)
	if r.Inner != nil {
		return r.forward(name, func() error { return r.Inner.EmitCounter(name, v, tags...) })
	}
	return nil
}

func (r *RecMetrics) EmitGauge(name string, v interface{}, tags ...metrics.T) error {
	r.rec("gauge", name, v, tags)
	if r.Inner != nil {
		return r.forward(name, func() error { return r.Inner.EmitGauge(name, v, tags...) })
	}
	return nil
}

func (r *RecMetrics) EmitHistogram(name string, v interface{}, tags ...metrics.T) error {
	r.rec("histogram", name, v, tags)
	if r.Inner != nil {
		return r.forward(name, func() error { return r.Inner.EmitHistogram(name, v, tags...) })
	}
	return nil
}

// forward calls the real client. A panic inside it (the real client panics on a label-name set that
// differs from the first one seen, and on a second registration of a name) would kill a real node
// on whatever goroutine emitted; here it is recorded and the run goes on, so that the run can be
// reported and shrunk like any other.
func (r *RecMetrics) forward(name string, f func() error) (err error) {
	defer func() {
		if x := recover(); x != nil {
			where := ""
			for _, line := range strings.Split(string(debug.Stack()), "\n") {
				if strings.Contains(line, "github.com/kubewharf/kubebrain/") && !strings.Contains(line, "/pkg/metrics/") && strings.Contains(line, "(") {
					where = strings.TrimSpace(line)
					if i := strings.LastIndex(where, "("); i > 0 {
						where = where[:i]
					}
					break
				}
			}
			r.mu.Lock()
			r.Panics = append(r.Panics, fmt.Sprintf("%s: %v [emitted by %s]", name, x, where))
			r.mu.Unlock()
			err = fmt.Errorf("metric emission panicked: %v", x)
		}
	}()
	return f()
}

// Inconsistent lists metric names emitted with more than one kind / label-name set.
func (r *RecMetrics) Inconsistent() []string {
	r.mu.Lock()
	defer r.mu.Unlock()
	var out []string
	for name, shapes := range r.Shapes {
		if len(shapes) > 1 {
			var ss []string
			for s := range shapes {
				ss = append(ss, s)
			}
			sort.Strings(ss)
			out = append(out, fmt.Sprintf("%s: %s", name, strings.Join(ss, " vs ")))
		}
	}
	sort.Strings(out)
	return out
}

// Counter returns the accumulated value of a counter.
func (r *RecMetrics) Counter(name string) float64 {
	r.mu.Lock()
	defer r.mu.Unlock()
	return r.Count[name]
}

// Gauge returns the last value emitted under name.
func (r *RecMetrics) Gauge(name string) (float64, bool) {
	r.mu.Lock()
	defer r.mu.Unlock()
	v, ok := r.Last[name]
	return v, ok
}
