//go:debug randseednop=0
package props

import (
	"encoding/json"
	"flag"
	"fmt"
	"os"
	"path/filepath"
	"runtime"
	"sort"
	"strconv"
	"strings"
	"sync/atomic"
	"testing"
	"time"

	"k8s.io/klog/v2"

	kbprom "github.com/kubewharf/kubebrain/pkg/metrics/prometheus"

	"verif/sim/rt"
	"verif/sim/world"
)

// Summary is what one worker process reports.
type Summary struct {
	Prop        string            `json:"prop"`
	Tier        string            `json:"tier"`
	Seed        uint64            `json:"seed"`
	From, To    int               `json:"-"`
	Runs        int               `json:"runs"`
	Inconcl     int               `json:"inconclusive"`
	Infra       []string          `json:"infra,omitempty"`
	Steps       uint64            `json:"steps"`
	SimMs       int64             `json:"sim_ms"`
	WallS       float64           `json:"wall_s"`
	Probes      map[string]int    `json:"probes"`
	Fired       map[string]int    `json:"fired"`
	SiteHits    map[string]uint64 `json:"site_hits"`
	SchedHashes []uint64          `json:"sched_hashes"`
	NTHashes    []uint64          `json:"nt_hashes"`
	StateHashes []uint64          `json:"state_hashes"`
	Hazards     int               `json:"hazards"`
	HazardRuns  []int             `json:"hazard_runs,omitempty"`
	Samples     []json.RawMessage `json:"samples"`
	Failures    []Failure         `json:"failures,omitempty"`
	Classes     map[string]int    `json:"classes"`
	Engines     map[string]int    `json:"engines"`
	RunHashes   map[string]uint64 `json:"run_hashes,omitempty"` // determinism self-test
	Ops         int               `json:"ops"`
	KnownHits   map[string]int    `json:"known_hits"`
}

// Failure is a (shrunk) violating scenario.
type Failure struct {
	Violation Violation       `json:"violation"`
	Scenario  *world.Scenario `json:"scenario"`
	Original  int             `json:"original_ops"`
	Shrunk    int             `json:"shrunk_ops"`
	Hash      uint64          `json:"hash"`
	RunIndex  int             `json:"run_index"`
	Trace     []string        `json:"trace,omitempty"`
}

var runStarted atomic.Int64 // unix nanos (real) of the current run's start; 0 = idle

func envInt(name string, def int) int {
	if v := os.Getenv(name); v != "" {
		n, err := strconv.Atoi(v)
		if err == nil {
			return n
		}
	}
	return def
}

func TestMain(m *testing.M) {
	kfs := flag.NewFlagSet("klog", flag.ContinueOnError)
	klog.InitFlags(kfs)
	kfs.Set("logtostderr", "false")
	kfs.Set("alsologtostderr", "false")
	kfs.Set("stderrthreshold", "FATAL")
	klog.SetOutput(discard{})
	// watchdog in real time, outside any bubble
	defLimit := 120
	if os.Getenv("VERIF_PROP") == "C20" {
		defLimit = 45 // a wedged node is this property's business: do not wait long for it
	}
	limit := time.Duration(envInt("VERIF_RUN_TIMEOUT_S", defLimit)) * time.Second
	go func() {
		for {
			time.Sleep(2 * time.Second)
			st := runStarted.Load()
			if st != 0 && time.Since(time.Unix(0, st)) > limit {
				// is a goroutine of node code waiting for a lock that nobody will release? (a mutex wait is
				// not a durable block for the bubble, so the whole run stands still with it)
				if where := lockWaitInNodeCode(); where != "" {
					fmt.Fprintf(os.Stderr, "WATCHDOG-WEDGE: run exceeded %s with node code waiting for a lock: %s\n", limit, where)
					os.Exit(3)
				}
				fmt.Fprintf(os.Stderr, "WATCHDOG: run exceeded %s (harness or node blocked/spinning); infrastructure exit\n", limit)
				os.Exit(2)
			}
		}
	}()
	if os.Getenv("VERIF_PROP") == "C20" {
		// production metrics: the real Prometheus client; every run replaces it by one on a registry of its own
		world.RealMetrics = kbprom.NewMetrics()
	}
	os.Exit(m.Run())
}

// lockWaitInNodeCode looks through all goroutine stacks for one that waits for a sync lock with a
// frame of the repository on its stack; it returns "<wait reason> at <innermost repository frame>".
func lockWaitInNodeCode() string {
	buf := make([]byte, 8<<20)
	buf = buf[:runtime.Stack(buf, true)]
	for _, g := range strings.Split(string(buf), "\n\n") {
		lines := strings.Split(g, "\n")
		if len(lines) < 2 || !strings.HasPrefix(lines[0], "goroutine ") {
			continue
		}
		hdr := lines[0]
		if !(strings.Contains(hdr, "[sync.Mutex.Lock") || strings.Contains(hdr, "[sync.RWMutex.RLock") || strings.Contains(hdr, "[sync.RWMutex.Lock")) {
			continue
		}
		for _, l := range lines[1:] {
			if strings.Contains(l, "github.com/kubewharf/kubebrain/") && !strings.Contains(l, "/verifhook") && strings.Contains(l, "(") && !strings.HasPrefix(l, "\t") {
				fn := l
				if i := strings.LastIndex(fn, "("); i > 0 {
					fn = fn[:i]
				}
				reason := hdr[strings.Index(hdr, "[")+1:]
				if i := strings.IndexAny(reason, ",]"); i > 0 {
					reason = reason[:i]
				}
				return reason + " at " + strings.TrimPrefix(fn, "github.com/kubewharf/kubebrain/")
			}
		}
	}
	return ""
}

type discard struct{}

func (discard) Write(p []byte) (int, error) { return len(p), nil }

// TestWorker executes a range of seeded runs of one property.
func TestWorker(t *testing.T) {
	id := os.Getenv("VERIF_PROP")
	if id == "" {
		t.Skip("VERIF_PROP not set")
	}
	p := Registry[id]
	if p == nil {
		fmt.Fprintf(os.Stderr, "unknown property %q\n", id)
		os.Exit(2)
	}
	tier := os.Getenv("VERIF_TIER")
	if tier == "" {
		tier = "quick"
	}
	seed := uint64(envInt("VERIF_SEED", 1))
	BaseSeed = seed
	from, to := envInt("VERIF_FROM", 0), envInt("VERIF_TO", 10)
	budget := time.Duration(envInt("VERIF_BUDGET_S", 3600)) * time.Second
	outPath := os.Getenv("VERIF_OUT")
	sum := &Summary{Prop: id, Tier: tier, Seed: seed, Probes: map[string]int{}, Fired: map[string]int{}, SiteHits: map[string]uint64{},
		Classes: map[string]int{}, Engines: map[string]int{}}
	if os.Getenv("VERIF_RUNHASHES") != "" {
		sum.RunHashes = map[string]uint64{}
	}
	sum.KnownHits = map[string]int{}
	knownSigs := map[string]bool{}
	if kp := os.Getenv("VERIF_KNOWN"); kp != "" {
		if b, err := os.ReadFile(kp); err == nil {
			var kf struct {
				Findings []struct{ Property, Sig string } `json:"findings"`
			}
			if json.Unmarshal(b, &kf) == nil {
				for _, f := range kf.Findings {
					knownSigs[f.Property+"|"+f.Sig] = true
				}
			}
		}
	}
	start := time.Now()
	sched := map[uint64]bool{}
	nt := map[uint64]bool{}
	states := map[uint64]bool{}
	maxFail := envInt("VERIF_MAX_FAIL", 3)

	runOne := func(sc *world.Scenario, idx int) {
		if outPath != "" {
			// if this run kills the process, the driver finds out which scenario it was
			cb, _ := json.Marshal(map[string]interface{}{"run_index": idx, "scenario": sc})
			os.WriteFile(outPath+".current", cb, 0o644)
		}
		runStarted.Store(time.Now().UnixNano())
		out := Execute(t, p, sc)
		runStarted.Store(0)
		if tp := os.Getenv("VERIF_TRACE_OUT"); tp != "" {
			os.WriteFile(tp, []byte(strings.Join(out.Trace, "\n")), 0o644)
		}
		sum.Runs++
		sum.Classes[sc.Class]++
		sum.Engines[sc.Engine]++
		if out.Infra != "" {
			if len(sum.Infra) < 5 {
				b, _ := json.Marshal(sc)
				sum.Infra = append(sum.Infra, out.Infra+" scenario="+string(b))
			}
			return
		}
		if out.Inconclusive != "" {
			sum.Inconcl++
			if os.Getenv("VERIF_DEBUG") != "" {
				fmt.Fprintf(os.Stderr, "run %d inconclusive: %s\n", idx, out.Inconclusive)
			}
		}
		sum.Steps += out.Steps
		sum.SimMs += out.SimMs
		sum.Hazards += out.Hazards
		if out.Hazards > 0 && len(sum.HazardRuns) < 5 {
			sum.HazardRuns = append(sum.HazardRuns, idx)
		}
		sum.Ops += out.Ops
		for k, v := range out.Probes {
			sum.Probes[k] += v
		}
		for k, v := range out.Fired {
			sum.Fired[k] += v
		}
		for k, v := range out.SiteHits {
			sum.SiteHits[k] += v
		}
		sched[out.Hash] = true
		states[out.StateHash] = true
		if out.NonTrivial {
			nt[out.Hash] = true
		}
		if sum.RunHashes != nil {
			sum.RunHashes[strconv.Itoa(idx)] = out.Hash
		}
		if len(sum.Samples) < 2 && (out.NonTrivial || idx%7 == 0) {
			b, _ := json.Marshal(sc)
			sum.Samples = append(sum.Samples, b)
		}
		var fresh []Violation
		for _, v := range out.Violations {
			if knownSigs[v.Prop+"|"+v.Sig] {
				sum.KnownHits[v.Prop+"|"+v.Sig]++
			} else {
				fresh = append(fresh, v)
			}
		}
		out.Violations = fresh
		if len(out.Violations) > 0 && len(sum.Failures) < maxFail {
			seen := map[string]bool{}
			for _, f := range sum.Failures {
				seen[f.Violation.Prop+"|"+f.Violation.Rule] = true
			}
			for _, v := range out.Violations {
				if seen[v.Prop+"|"+v.Rule] {
					continue
				}
				seen[v.Prop+"|"+v.Rule] = true
				f := shrink(t, p, sc, v)
				f.RunIndex = idx
				sum.Failures = append(sum.Failures, f)
			}
		}
	}

	if rp := os.Getenv("VERIF_REPLAY"); rp != "" {
		b, err := os.ReadFile(rp)
		if err != nil {
			fmt.Fprintln(os.Stderr, err)
			os.Exit(2)
		}
		var rf ReplayFile
		if err := json.Unmarshal(b, &rf); err != nil {
			fmt.Fprintln(os.Stderr, err)
			os.Exit(2)
		}
		os.Setenv("VERIF_TRACE", "1")
		out := Execute(t, p, rf.Scenario)
		res := map[string]interface{}{"violations": out.Violations, "hash": out.Hash, "expected_hash": rf.Hash,
			"expected_rule": rf.Violation.Rule, "infra": out.Infra, "trace": out.Trace, "hazards": out.HazardNames}
		b, _ = json.MarshalIndent(res, "", " ")
		if outPath != "" {
			os.WriteFile(outPath, b, 0o644)
		} else {
			fmt.Println(string(b))
		}
		return
	}

	if from == 0 {
		var corpus []*world.Scenario
		if p.Corpus != nil {
			corpus = p.Corpus(tier)
		}
		dir := os.Getenv("VERIF_DIR")
		if dir == "" {
			dir = "/verif"
		}
		files, _ := filepath.Glob(filepath.Join(dir, "corpus", id, "*.json"))
		sort.Strings(files)
		for _, f := range files {
			b, err := os.ReadFile(f)
			if err != nil {
				continue
			}
			var rf ReplayFile
			if json.Unmarshal(b, &rf) == nil && rf.Scenario != nil {
				rf.Scenario.Forced = nil
				corpus = append(corpus, rf.Scenario)
			}
		}
		for i, sc := range corpus {
			runOne(sc, -1-i)
		}
	}
	for idx := from; idx < to; idx++ {
		if time.Since(start) > budget {
			break
		}
		r := rt.NewRand(rt.Mix(rt.MixStr(seed, id), uint64(idx)))
		sc := p.Gen(r, tier, idx)
		if sc.Prop == "" {
			sc.Prop = id
		}
		if os.Getenv("VERIF_DUMP_SC") != "" {
			b, _ := json.Marshal(sc)
			fmt.Fprintf(os.Stderr, "SCENARIO %d %s\n", idx, b)
		}
		runOne(sc, idx)
	}
	sum.WallS = time.Since(start).Seconds()
	for h := range sched {
		sum.SchedHashes = append(sum.SchedHashes, h)
	}
	for h := range nt {
		sum.NTHashes = append(sum.NTHashes, h)
	}
	for h := range states {
		sum.StateHashes = append(sum.StateHashes, h)
	}
	sort.Slice(sum.SchedHashes, func(i, j int) bool { return sum.SchedHashes[i] < sum.SchedHashes[j] })
	b, _ := json.Marshal(sum)
	if outPath != "" {
		if err := os.WriteFile(outPath, b, 0o644); err != nil {
			fmt.Fprintln(os.Stderr, err)
			os.Exit(2)
		}
	} else {
		fmt.Println(string(b))
	}
}

// ReplayFile is what a violation is reported with.
type ReplayFile struct {
	Property  string          `json:"property"`
	Violation Violation       `json:"violation"`
	Scenario  *world.Scenario `json:"scenario"`
	Hash      uint64          `json:"hash"`
	Trace     []string        `json:"trace,omitempty"`
	Note      string          `json:"note,omitempty"`
}

func sameRule(out *Outcome, v Violation) *Violation {
	for i := range out.Violations {
		if out.Violations[i].Prop == v.Prop && out.Violations[i].Rule == v.Rule {
			return &out.Violations[i]
		}
	}
	return nil
}

// shrink minimises a violating scenario by delta debugging: drop clients,
// drop operations (chunks, then singles), drop faults, zero the rates, simplify
// the schedule (more stickiness), while the same rule of the same property fires.
func shrink(t *testing.T, p *Prop, sc *world.Scenario, v Violation) Failure {
	best := sc.Clone()
	bestV := v
	orig := sc.NumOps()
	budget := 400
	deadline := time.Now().Add(time.Duration(envInt("VERIF_SHRINK_S", 45)) * time.Second)
	try := func(c *world.Scenario) bool {
		if budget <= 0 || time.Now().After(deadline) {
			budget = 0
			return false
		}
		budget--
		out := Execute(t, p, c)
		if out.Infra != "" {
			return false
		}
		if nv := sameRule(out, v); nv != nil {
			best = c
			bestV = *nv
			return true
		}
		return false
	}
	changed := true
	for changed && budget > 0 {
		changed = false
		// drop whole clients
		for i := len(best.Clients) - 1; i >= 0 && len(best.Clients) > 1; i-- {
			c := best.Clone()
			c.Clients = append(c.Clients[:i], c.Clients[i+1:]...)
			if try(c) {
				changed = true
			}
		}
		// drop operations
		for ci := 0; ci < len(best.Clients); ci++ {
			for chunk := len(best.Clients[ci].Ops) / 2; chunk >= 1; chunk /= 2 {
				for at := 0; at+chunk <= len(best.Clients[ci].Ops); {
					c := best.Clone()
					ops := c.Clients[ci].Ops
					c.Clients[ci].Ops = append(append([]world.Op(nil), ops[:at]...), ops[at+chunk:]...)
					if try(c) {
						changed = true
					} else {
						at += chunk
					}
				}
			}
		}
		for chunk := len(best.Prologue) / 2; chunk >= 1; chunk /= 2 {
			for at := 0; at+chunk <= len(best.Prologue); {
				c := best.Clone()
				c.Prologue = append(append([]world.Op(nil), best.Prologue[:at]...), best.Prologue[at+chunk:]...)
				if try(c) {
					changed = true
				} else {
					at += chunk
				}
			}
		}
		// drop faults
		for i := len(best.Plan) - 1; i >= 0; i-- {
			c := best.Clone()
			c.Plan = append(c.Plan[:i], c.Plan[i+1:]...)
			if try(c) {
				changed = true
			}
		}
		if best.Rates != (world.Scenario{}).Rates {
			c := best.Clone()
			c.Rates = (world.Scenario{}).Rates
			if try(c) {
				changed = true
			}
		}
		// simpler schedules
		if best.Stick < 0.95 {
			for _, st := range []float64{0.99, 0.9} {
				if st <= best.Stick {
					continue
				}
				c := best.Clone()
				c.Stick = st
				if try(c) {
					changed = true
					break
				}
			}
		}
		// simpler engine
		if best.Engine != "memkv" {
			c := best.Clone()
			c.Engine = "memkv"
			if try(c) {
				changed = true
			}
		}
		if best.MetricsKV {
			c := best.Clone()
			c.MetricsKV = false
			if try(c) {
				changed = true
			}
		}
	}
	os.Setenv("VERIF_TRACE", "1")
	out := Execute(t, p, best)
	os.Unsetenv("VERIF_TRACE")
	f := Failure{Violation: bestV, Scenario: best, Original: orig, Shrunk: best.NumOps(), Hash: out.Hash}
	if len(out.Trace) < 600 {
		f.Trace = out.Trace
	} else {
		f.Trace = append(out.Trace[:400:400], "...")
	}
	_ = strings.Join
	return f
}
