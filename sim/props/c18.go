package props

import (
	"context"
	"fmt"
	"net/http"
	"strings"
	"testing"
	"time"

	pb "go.etcd.io/etcd/api/v3/etcdserverpb"

	proto "github.com/kubewharf/kubebrain-client/api/v2rpc"

	"verif/sim/model"
	"verif/sim/rt"
	"verif/sim/simkv"
	"verif/sim/world"
)

// C18 — only the leader writes and streams; followers read at its revision or fail.

var c18PeerModes = []string{"", "delay", "loss", "http500", "http400", "timeout", "cutbody", "stallbody"}

func genC18(r *rt.Rand, tier string, idx int) *world.Scenario {
	sc := &world.Scenario{Prefix: prefix, Seed: r.Uint64(), Engine: "memkv", EtcdCompat: true}
	sc.Extra = map[string]int64{}
	if idx%3 == 2 {
		sc.Class = "concurrent-follower-reads"
		sc.Extra["concurrent"] = 1
		sc.Extra["tso_yield"] = 1
		sc.Extra["writes"] = int64(5 + r.Intn(20))
		sc.Extra["readers"] = int64(1 + r.Intn(3))
		sc.Extra["reads"] = int64(3 + r.Intn(8))
		sc.Extra["delay_pct"] = int64(r.Intn(80))
	} else {
		sc.Class = "role-matrix"
		sc.Extra["proxy"] = int64(idx % 2)
		if idx%2 == 1 && (idx/2)%3 == 1 {
			sc.Extra["proxy_down"] = 1 // the proxy has no connection to the leader
			sc.Class = "role-matrix+proxy-unavailable"
		}
		sc.Extra["mode"] = int64(r.Intn(len(c18PeerModes)))
		sc.Extra["prewrites"] = int64(1 + r.Intn(6))
	}
	if idx%12 == 7 {
		// the leader's lock renewal hangs in the engine: it goes on believing it leads (and answering peers)
		// while another node takes the lock over; a third node serves reads before and after
		sc.Class = "deposed-leader-still-answering"
		sc.Extra = map[string]int64{"deposed": 1, "prewrites": int64(1 + r.Intn(5)), "writes": int64(1 + r.Intn(5))}
	}
	if idx%12 == 11 {
		// the leader crashes and comes back with its identity before its lease has run out: the election record
		// still names it, its first renewal is slow - until its election callback has run it is not the leader
		sc.Class = "leader-restarts-with-its-identity"
		sc.Extra = map[string]int64{"restart_same_identity": 1, "prewrites": int64(1 + r.Intn(5)), "mode": 0}
	}
	if r.Chance(0.3) {
		sc.Inactive = swarmSites(r, "kv.get", "kv.commit")
	}
	return sc
}

type c18Read struct {
	kind      string
	node      string // L or F
	inv, ret  uint64
	leaderCom uint64 // the leader's committed revision when the read was invoked
	hdr       uint64
	err       string
	kvs       []model.KV
	key, end  string
	isGet     bool
	count     uint64
	isCount   bool
	mode      string
}

func c18Custom(t *testing.T, sc *world.Scenario, out *Outcome) {
	const P = "C18"
	w, err := world.New(sc)
	if err != nil {
		out.Infra = err.Error()
		return
	}
	defer w.Teardown()
	s := w.S
	pn := w.NewPeerNet()
	proxyOn := sc.Extra["proxy"] != 0
	L := w.AddServer(pn, proxyOn)
	if !w.WaitLeader(L, 20*time.Second) {
		out.Infra = "first node never became leader"
		return
	}
	F := w.AddServer(pn, proxyOn)
	// let F's elector observe the lock and settle as follower
	w.Idle(3*time.Second, 4000)
	if F.LE.IsLeader() || !L.LE.IsLeader() {
		out.Infra = "unexpected roles"
		return
	}
	mode := ""
	pn.Fault = func(from int, host string) string { return mode }
	ctx := context.Background()
	var reads []*c18Read
	curLeader := L // the node that holds the election lock
	fWritesBefore := func() int {
		n := 0
		for _, e := range w.KV.GT {
			if e.Node == F.ID && e.Class == "data" {
				n++
			}
		}
		return n
	}
	k := func(i int) string { return fmt.Sprintf("%s/k%d", prefix, i%4) }
	doRead := func(sn *world.ServerNode, name, kind string) *c18Read {
		r := &c18Read{kind: kind, node: name, inv: s.StepNo(), leaderCom: curLeader.B.GetCurrentRevision(), mode: mode}
		r.key, r.end = prefix+"/", prefix+"0"
		switch kind {
		case "brain.get":
			r.key, r.isGet = k(0), true
			resp, err := sn.Brain.Get(ctx, &proto.GetRequest{Key: []byte(r.key)})
			if err != nil {
				r.err = err.Error()
			} else {
				r.hdr = resp.Header.GetRevision()
				if resp.Kv != nil {
					r.kvs = []model.KV{{Key: string(resp.Kv.Key), Val: resp.Kv.Value, Rev: resp.Kv.Revision}}
				}
			}
		case "brain.range":
			resp, err := sn.Brain.Range(ctx, &proto.RangeRequest{Key: []byte(r.key), End: []byte(r.end)})
			if err != nil {
				r.err = err.Error()
			} else {
				r.hdr = resp.Header.GetRevision()
				for _, kv := range resp.Kvs {
					r.kvs = append(r.kvs, model.KV{Key: string(kv.Key), Val: kv.Value, Rev: kv.Revision})
				}
			}
		case "brain.count":
			r.isCount = true
			resp, err := sn.Brain.Count(ctx, &proto.CountRequest{Key: []byte(r.key), End: []byte(r.end)})
			if err != nil {
				r.err = err.Error()
			} else {
				r.hdr, r.count = resp.Header.GetRevision(), resp.Count
			}
		case "brain.partitions":
			resp, err := sn.Brain.ListPartition(ctx, &proto.ListPartitionRequest{Key: []byte(r.key), End: []byte(r.end)})
			r.kind = "partitions"
			if err != nil {
				r.err = err.Error()
			} else {
				r.hdr = resp.Header.GetRevision()
			}
		case "brain.rangestream":
			st := world.NewBrainRangeStream()
			err := sn.Brain.RangeStream(&proto.RangeRequest{Key: []byte("\x57\xfb\x80\x8b" + r.key + "$\x00\x00\x00\x00\x00\x00\x00\x00"), End: []byte("\x57\xfb\x80\x8b" + r.end + "$\x00\x00\x00\x00\x00\x00\x00\x00")}, st)
			if err != nil {
				r.err = err.Error()
			} else {
				for _, m := range st.Resps {
					if m.RangeResponse != nil {
						if !m.RangeResponse.More {
							r.hdr = m.RangeResponse.Header.GetRevision()
							if m.Err != "" {
								r.err = m.Err
							}
						}
						for _, kv := range m.RangeResponse.Kvs {
							r.kvs = append(r.kvs, model.KV{Key: string(kv.Key), Val: kv.Value, Rev: kv.Revision})
						}
					}
				}
			}
		case "etcd.get":
			r.key, r.isGet = k(1), true
			resp, err := sn.Etcd.Range(ctx, &pb.RangeRequest{Key: []byte(r.key)})
			if err != nil {
				r.err = err.Error()
			} else {
				r.hdr = uint64(resp.Header.GetRevision())
				for _, kv := range resp.Kvs {
					r.kvs = append(r.kvs, model.KV{Key: string(kv.Key), Val: kv.Value, Rev: uint64(kv.ModRevision)})
				}
			}
		case "etcd.range":
			resp, err := sn.Etcd.Range(ctx, &pb.RangeRequest{Key: []byte(r.key), RangeEnd: []byte(r.end)})
			if err != nil {
				r.err = err.Error()
			} else {
				r.hdr = uint64(resp.Header.GetRevision())
				for _, kv := range resp.Kvs {
					r.kvs = append(r.kvs, model.KV{Key: string(kv.Key), Val: kv.Value, Rev: uint64(kv.ModRevision)})
				}
			}
		case "etcd.partitions":
			// partition listing through the etcd API: a range request at the magic revision 1888
			r.kind = "partitions"
			resp, err := sn.Etcd.Range(ctx, &pb.RangeRequest{Key: []byte(r.key), RangeEnd: []byte(r.end), Revision: 1888})
			if err != nil {
				r.err = err.Error()
			} else {
				r.hdr = uint64(resp.Header.GetRevision())
			}
		case "etcd.count":
			r.isCount = true
			resp, err := sn.Etcd.Range(ctx, &pb.RangeRequest{Key: []byte(r.key), RangeEnd: []byte(r.end), CountOnly: true})
			if err != nil {
				r.err = err.Error()
			} else {
				r.hdr, r.count = uint64(resp.Header.GetRevision()), uint64(resp.Count)
			}
		}
		r.ret = s.StepNo()
		s.Note("read %s %s -> hdr %d err %q", name, kind, r.hdr, clipS(r.err))
		reads = append(reads, r)
		return r
	}
	readKinds := []string{"brain.get", "brain.range", "brain.count", "brain.partitions", "brain.rangestream", "etcd.get", "etcd.range", "etcd.count", "etcd.partitions"}
	wn := 0
	doWrite := func(sn *world.ServerNode, kind string) (err error, ok bool) {
		wn++
		key, val := k(wn), fmt.Sprintf("v%d", wn)
		switch kind {
		case "brain.create":
			resp, e := sn.Brain.Create(ctx, &proto.CreateRequest{Key: []byte(key), Value: []byte(val)})
			return e, e == nil && resp.Succeeded
		case "brain.update":
			resp, e := sn.Brain.Update(ctx, &proto.UpdateRequest{Kv: &proto.KeyValue{Key: []byte(key), Value: []byte(val), Revision: 0}})
			return e, e == nil && resp.Succeeded
		case "brain.delete":
			resp, e := sn.Brain.Delete(ctx, &proto.DeleteRequest{Key: []byte(key)})
			return e, e == nil && resp.Succeeded
		case "brain.compact":
			_, e := sn.Brain.Compact(ctx, &proto.CompactRequest{Revision: 1})
			return e, e == nil
		case "etcd.create":
			txn, _ := buildTxn("create", key, "", val, 0)
			resp, e := sn.Etcd.Txn(ctx, txn)
			return e, e == nil && resp.Succeeded
		case "etcd.update":
			txn, _ := buildTxn("update", key, "", val, 0)
			resp, e := sn.Etcd.Txn(ctx, txn)
			return e, e == nil && resp.Succeeded
		case "etcd.udelete":
			txn, _ := buildTxn("udelete", key, "", "", 0)
			resp, e := sn.Etcd.Txn(ctx, txn)
			return e, e == nil && resp.Succeeded
		}
		return nil, false
	}
	writeKinds := []string{"brain.create", "brain.update", "brain.delete", "brain.compact", "etcd.create", "etcd.update", "etcd.udelete"}
	finished := false
	if sc.Extra["restart_same_identity"] != 0 {
		w.KV.LockKey = []byte(prefix + "/election")
		preDone := false
		s.Go("restart-pre", -1, func() {
			for i := 0; i < int(sc.Extra["prewrites"]); i++ {
				doWrite(L, []string{"brain.create", "etcd.create", "brain.update"}[i%3])
				s.Yield("matrix.step")
			}
			s.YieldIdle("matrix.idle")
			preDone = true
		})
		s.Settle()
		for steps := 0; steps < 20000 && !preDone; steps++ {
			if !s.Step() {
				s.Advance(250 * time.Millisecond)
			}
		}
		if !preDone {
			out.Inconclusive = "prewrites did not finish"
			return
		}
		s.CrashNode(L.ID)
		delete(pn.Servers, L.Addr)
		// the node's next write of the election record (its first renewal) stays in the engine for a while
		w.KV.Plan = append(w.KV.Plan, &simkv.Fault{Op: "commit", Class: "lock", Node: len(w.Nodes) + 1, Nth: 1, Effect: "delay:3000"})
		maxStored := model.FromGT(w.KV.GT).MaxRev()
		w.YieldOnSetRevision = true // the election callback can be overtaken between its statements
		L2 := w.AddServerAt(pn, proxyOn, L.Addr)
		curLeader = L2
		// the callback has begun and has not yet given the node its revision
		inWindow := func() bool {
			return L2.M.Counter("leader.election.success") > 0 && L2.B.GetCurrentRevision() < maxStored
		}
		s.Go("restart", -1, func() {
			until := s.SimTime() + 6*time.Second
			for s.SimTime() < until {
				if inWindow() {
					out.probe("request-while-the-election-callback-runs")
					rk := readKinds[s.Rng().Intn(len(readKinds))]
					r := doRead(L2, "R", rk)
					if r.err == "" && r.kind != "partitions" && r.hdr < maxStored {
						out.violate(P, "served-before-revision-initialised", "served-before-revision-initialised kind="+rk,
							"the node that was just elected served %s at revision %d while its election callback had not yet given it its revision (the store holds revision %d)", rk, r.hdr, maxStored)
					}
					n0 := len(w.KV.GT)
					kind := writeKinds[s.Rng().Intn(len(writeKinds))]
					doWrite(L2, kind)
					for _, e := range w.KV.GT[n0:] {
						if e.Node == L2.ID && e.Class == "data" && e.Applied && len(e.Muts) > 0 && e.Muts[0].Rev != 0 && e.Muts[0].Rev <= maxStored {
							out.violate(P, "served-before-revision-initialised", "served-before-revision-initialised kind="+kind,
								"the node that was just elected applied a write (%s) with revision %d while its election callback had not yet given it its revision (the store holds revision %d)", kind, e.Muts[0].Rev, maxStored)
						}
					}
					s.Yield("matrix.step")
					continue
				}
				started := L2.M.Counter("leader.election.success") > 0
				before := 0
				for _, e := range w.KV.GT {
					if e.Node == L2.ID && e.Class == "data" && e.Applied {
						before++
					}
				}
				kind := writeKinds[s.Rng().Intn(len(writeKinds))]
				err, _ := doWrite(L2, kind)
				after := 0
				for _, e := range w.KV.GT {
					if e.Node == L2.ID && e.Class == "data" && e.Applied {
						after++
					}
				}
				if !started && after != before && L2.M.Counter("leader.election.success") == 0 {
					out.violate(P, "write-applied-before-election", "write-applied-before-election kind="+kind,
						"the restarted node applied a write (%s, err=%v) before its election callback had run (the election record still names it from its previous life)", kind, err)
				}
				if !started {
					out.probe("request-to-restarted-node-before-its-election")
					rk := readKinds[s.Rng().Intn(len(readKinds))]
					r := doRead(L2, "R", rk)
					if r.err == "" && L2.M.Counter("leader.election.success") == 0 && r.kind != "partitions" {
						out.violate(P, "read-served-before-election", "read-served-before-election kind="+rk,
							"the restarted node served %s at revision %d before its election callback had run", rk, r.hdr)
					}
				}
				wake := s.SimTime() + 200*time.Millisecond
				s.YieldUntil("matrix.sleep", func() bool { return s.SimTime() >= wake || inWindow() })
			}
			finished = true
		})
	} else if sc.Extra["deposed"] != 0 {
		w.KV.LockKey = []byte(prefix + "/election")
		G := w.AddServer(pn, proxyOn)
		w.Idle(3*time.Second, 4000)
		if G.LE.IsLeader() || F.LE.IsLeader() || !L.LE.IsLeader() {
			out.Infra = "unexpected roles"
			return
		}
		s.Go("deposed", -1, func() {
			for i := 0; i < int(sc.Extra["prewrites"]); i++ {
				doWrite(L, []string{"brain.create", "etcd.create", "brain.update"}[i%3])
				s.Yield("matrix.step")
			}
			s.YieldIdle("matrix.idle")
			// both standbys serve a read through the leader
			for _, sn := range []*world.ServerNode{F, G} {
				if r := doRead(sn, "F", "brain.range"); r.err != "" {
					out.Inconclusive = "follower read failed before the leader change: " + r.err
				}
				s.Yield("matrix.step")
			}
			// the leader's next lock renewal stays in the engine for a minute
			w.KV.Plan = append(w.KV.Plan, &simkv.Fault{Op: "commit", Class: "lock", Node: L.ID + 1, Nth: 1, Effect: "delay:60000"})
			deadline := s.SimTime() + 25*time.Second
			s.YieldUntil("deposed.wait", func() bool { return F.LE.IsLeader() || G.LE.IsLeader() || s.SimTime() > deadline })
			newL, reader := F, G
			if G.LE.IsLeader() {
				newL, reader = G, F
			}
			if !newL.LE.IsLeader() {
				out.Inconclusive = "no standby took over"
				finished = true
				return
			}
			// the other standby's elector observes the new record (it polls once a second)
			until := s.SimTime() + 3*time.Second
			s.YieldUntil("deposed.wait", func() bool { return s.SimTime() >= until })
			// With one clock for all nodes the old leader gives up (renew deadline 5 s) and ends its process
			// before the lease (8 s) lets anybody else in. A leader whose clock runs behind, or whose process was
			// paused, goes on answering as leader for a while: that peer is scripted here - the old leader's
			// address answers /status with the revision it had reached.
			oldRev := L.B.GetCurrentRevision()
			s.CrashNode(L.ID)
			L.Status = http.HandlerFunc(func(rw http.ResponseWriter, _ *http.Request) {
				out.probe("deposed-leader-was-asked")
				rw.WriteHeader(200)
				fmt.Fprintf(rw, `{"Revision":%d}`, oldRev)
			})
			curLeader = newL
			for i := 0; i < int(sc.Extra["writes"]); i++ {
				if err, _ := doWrite(newL, []string{"brain.create", "etcd.create", "brain.update"}[i%3]); err != nil {
					out.violate(P, "leader-refused-write", "leader-refused-write", "the new leader refused a write: %v", err)
				}
				s.Yield("matrix.step")
			}
			s.YieldIdle("matrix.idle")
			for _, kind := range readKinds {
				if r := doRead(reader, "F", kind); r.err == "" {
					out.probe("read-after-leader-change")
				}
				s.Yield("matrix.step")
			}
			finished = true
		})
	} else if sc.Extra["concurrent"] == 0 {
		mode0 := c18PeerModes[sc.Extra["mode"]%int64(len(c18PeerModes))]
		s.Go("matrix", -1, func() {
			// some content, written through the leader
			for i := 0; i < int(sc.Extra["prewrites"]); i++ {
				if err, _ := doWrite(L, []string{"brain.create", "etcd.create", "brain.update"}[i%3]); err != nil {
					out.violate(P, "leader-refused-write", "leader-refused-write", "leader refused a write: %v", err)
				}
				s.Yield("matrix.step")
			}
			s.YieldIdle("matrix.idle")
			// leader serves everything
			for _, kind := range readKinds {
				r := doRead(L, "L", kind)
				if r.err != "" {
					out.violate(P, "leader-read-failed", "leader-read-failed kind="+kind, "read %s on the leader failed: %s", kind, r.err)
				}
				s.Yield("matrix.step")
			}
			// follower, with the peer network in the chosen state
			mode = mode0
			for _, kind := range readKinds {
				doRead(F, "F", kind)
				s.Yield("matrix.step")
			}
			for _, kind := range writeKinds {
				before := fWritesBefore()
				px, _ := F.Peers.(interface{ EtcdProxyEnabled() bool })
				_ = px
				proxyDown := proxyOn && sc.Extra["proxy_down"] != 0 && F.Proxy != nil
				if proxyDown {
					F.Proxy.Unavailable = true
				}
				err, ok := doWrite(F, kind)
				proxied := proxyOn && strings.HasPrefix(kind, "etcd.")
				if proxyDown {
					F.Proxy.Unavailable = false
					// the proxy has no connection to the leader: the write can only be refused
					if fWritesBefore() != before {
						out.violate(P, "follower-applied-write", "follower-applied-write kind="+kind+" proxy-unavailable", "the follower itself applied a write (%s) when its proxy could not reach the leader", kind)
					} else if err == nil {
						out.violate(P, "follower-write-not-rejected", "follower-write-not-rejected kind="+kind+" proxy-unavailable", "write %s on the follower returned ok=%v without an error although nothing could be forwarded", kind, ok)
					}
					out.probe("write-with-proxy-unavailable")
					s.Yield("matrix.step")
					continue
				}
				switch {
				case fWritesBefore() != before:
					out.violate(P, "follower-applied-write", "follower-applied-write kind="+kind, "the follower itself applied a write (%s)", kind)
				case !proxied && !world.IsUnavailable(err):
					out.violate(P, "follower-write-not-rejected", "follower-write-not-rejected kind="+kind, "write %s on the follower (proxy off for this API) returned ok=%v err=%v instead of Unavailable", kind, ok, err)
				case proxied && err != nil && world.IsUnavailable(err):
					out.violate(P, "follower-did-not-forward", "follower-did-not-forward kind="+kind, "write %s on the follower with the proxy enabled was rejected instead of forwarded: %v", kind, err)
				}
				if proxied && err == nil {
					out.probe("write-forwarded-to-leader")
				}
				s.Yield("matrix.step")
			}
			// watches on the follower
			add0 := F.M.Counter("watcher_hub.add_watcher")
			bw := world.NewBrainWatchStream()
			berr := F.Brain.Watch(&proto.WatchRequest{Key: []byte(prefix + "/")}, bw)
			if !world.IsUnavailable(berr) {
				out.violate(P, "follower-served-watch", "follower-served-watch api=brain", "brain Watch on the follower returned %v instead of Unavailable", berr)
			}
			ew := world.NewEtcdWatchStream()
			var eerr error
			edone := false
			s.Go("f-etcd-watch", -1, func() { eerr = F.Etcd.Watch(ew); edone = true })
			ew.Reqs <- &pb.WatchRequest{RequestUnion: &pb.WatchRequest_CreateRequest{CreateRequest: &pb.WatchCreateRequest{Key: []byte(prefix + "/"), RangeEnd: []byte(prefix + "0")}}}
			s.YieldIdle("matrix.idle")
			if !proxyOn {
				if !edone || !world.IsUnavailable(eerr) {
					out.violate(P, "follower-served-watch", "follower-served-watch api=etcd", "etcd Watch on the follower (proxy off): returned=%v err=%v, want Unavailable", edone, eerr)
				}
			}
			ew.Cancel()
			if F.M.Counter("watcher_hub.add_watcher") != add0 {
				out.violate(P, "follower-watch-from-own-history", "follower-watch-from-own-history", "a watch on the follower subscribed to the follower's own event hub")
			}
			mode = ""
			finished = true
		})
	} else {
		writes, readers, nreads := int(sc.Extra["writes"]), int(sc.Extra["readers"]), int(sc.Extra["reads"])
		delayPct := int(sc.Extra["delay_pct"])
		pn.Fault = func(from int, host string) string {
			if s.Rng().Intn(100) < delayPct {
				return "delay"
			}
			return ""
		}
		doneN := 0
		s.Go("l-writer", -1, func() {
			for i := 0; i < writes; i++ {
				doWrite(L, []string{"brain.create", "brain.update", "etcd.update"}[i%3])
				// a write counts as committed before a later read only once the leader reports it
				s.Yield("writer.step")
			}
			doneN++
		})
		for ri := 0; ri < readers; ri++ {
			ri := ri
			s.Go(fmt.Sprintf("f-reader%d", ri), -1, func() {
				for i := 0; i < nreads; i++ {
					doRead(F, "F", []string{"brain.range", "etcd.range", "brain.get", "etcd.get", "brain.rangestream"}[(i+ri)%5])
					s.Yield("reader.step")
				}
				doneN++
			})
		}
		s.Go("join", -1, func() {
			s.YieldUntil("join", func() bool { return doneN == readers+1 })
			finished = true
		})
	}
	s.Settle()
	for steps := 0; steps < 60000 && !finished; steps++ {
		if !s.Step() {
			s.Advance(250 * time.Millisecond)
		}
	}
	if !finished {
		out.Inconclusive = "scenario did not finish: " + strings.Join(stuckTasks(w), " ")
		return
	}
	w.Idle(1*time.Second, 3000)
	m := model.FromGT(w.KV.GT)
	overlap := false
	for _, r := range reads {
		if r.node != "F" {
			continue
		}
		if r.err != "" {
			out.probe("follower-read-failed")
			continue
		}
		out.probe("follower-read-served")
		if r.mode == "loss" || r.mode == "http500" || r.mode == "http400" || r.mode == "timeout" || r.mode == "cutbody" || r.mode == "stallbody" {
			out.violate(P, "follower-read-without-leader", "follower-read-without-leader peer="+r.mode, "follower served %s (header %d) although the leader could not be reached (%s)", r.kind, r.hdr, r.mode)
			continue
		}
		if r.kind == "partitions" {
			continue
		}
		if r.hdr < r.leaderCom {
			sig := "stale-follower-read"
			// was a revision fetch of another read in flight when this one began?
			for _, o := range reads {
				if o != r && o.node == "F" && o.inv < r.inv && o.ret >= r.inv {
					sig = "stale-follower-read joined-in-flight-fetch"
				}
			}
			out.violate(P, "stale-follower-read", sig, "follower read %s began when the leader had committed revision %d but was served at revision %d", r.kind, r.leaderCom, r.hdr)
			continue
		}
		switch {
		case r.isCount:
			if want := m.Snap(r.hdr, r.key, r.end); uint64(len(want)) != r.count {
				out.violate(P, "follower-read-content", "follower-read-content", "follower %s at %d returned %d, model %d", r.kind, r.hdr, r.count, len(want))
			}
		case r.isGet:
			v, ok := m.At(r.key, r.hdr)
			live := ok && !v.Tomb
			// a point read at "latest" may legitimately be newer than its header's snapshot: compare with the newest version <= header or newer
			if live != (len(r.kvs) == 1) && !(len(r.kvs) == 1 && r.kvs[0].Rev > r.hdr) {
				if lv, lok := m.At(r.key, 0); !(lok && !lv.Tomb && len(r.kvs) == 1 && r.kvs[0].Rev == lv.Rev) {
					out.violate(P, "follower-read-content", "follower-read-content", "follower %s(%s) at %d returned %v, model live=%v rev=%d", r.kind, r.key, r.hdr, r.kvs, live, v.Rev)
				}
			}
		default:
			want := m.Snap(r.hdr, r.key, r.end)
			if !sameKVSet(r.kvs, want) {
				out.violate(P, "follower-read-content", "follower-read-content", "follower %s at %d returned %s, model %s", r.kind, r.hdr, fmtKVs(r.kvs), fmtKVs(want))
			}
		}
		for _, o := range reads {
			if o != r && o.node == "F" && o.inv <= r.ret && r.inv <= o.ret {
				overlap = true
			}
		}
	}
	if overlap {
		out.probe("concurrent-follower-reads")
	}
	out.NonTrivial = len(reads) > 0
	out.Steps = s.StepNo()
	out.SimMs = s.SimTime().Milliseconds()
	out.Hash = s.Hash()
	out.Hazards = s.Hazards
	reportLockLeaks("C18", w, out)
	for n, c := range s.HazardNames {
		out.Probes["hazard:"+n] += c
	}
	out.Ops = len(reads) + wn
	out.Fired = pn.Fired
	out.SiteHits = s.SiteHits
	out.StateHash = stateHash(w)
	out.Trace = s.Trace
}

func init() {
	register(&Prop{ID: "C18", Gen: genC18, Custom: c18Custom})
}
