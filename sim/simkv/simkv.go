// Package simkv is the engine seam of the simulation: a storage.KvStorage
// wrapper that yields to the scheduler around every engine call, injects
// faults decided by the run PRNG / fault plan, varies the legal freedoms of the
// engine contract, and records the ground truth of what was really applied.
package simkv

import (
	"bytes"
	"context"
	"encoding/binary"
	"errors"
	"fmt"
	"io"
	"sort"
	"strings"
	"sync"
	"time"

	"github.com/kubewharf/kubebrain/pkg/storage"

	"verif/sim/rt"
)

// Magic prefix and split byte of the documented internal key layout:
// magic + raw key + '$' + 8-byte big-endian revision. This is the simulator's
// own decoder; it does not call the repository's coder.
var Magic = []byte{0x57, 0xfb, 0x80, 0x8b}

const Split = '$'

// DecodeKey splits an internal key. ok=false for keys that are not in the layout.
func DecodeKey(k []byte) (raw []byte, rev uint64, ok bool) {
	if len(k) < len(Magic)+9 || !bytes.Equal(k[:4], Magic) || k[len(k)-9] != Split {
		return nil, 0, false
	}
	return k[4 : len(k)-9], binary.BigEndian.Uint64(k[len(k)-8:]), true
}

// EncodeKey builds an internal key.
func EncodeKey(raw []byte, rev uint64) []byte {
	k := make([]byte, 0, len(raw)+13)
	k = append(k, Magic...)
	k = append(k, raw...)
	k = append(k, Split)
	var b [8]byte
	binary.BigEndian.PutUint64(b[:], rev)
	return append(k, b[:]...)
}

// Mut is one mutation of a batch as seen at the seam.
type Mut struct {
	Op    string // put, pine (put-if-not-exist), cas, del, delcur
	Key   []byte
	Raw   string // decoded raw key ("" if not in the layout)
	Rev   uint64 // decoded revision; 0 = index record
	InLay bool   // key is in the internal layout
	Val   []byte
	Old   []byte // expected value for cas / delcur
	TTL   int64
}

// Entry is one mutating engine call.
type Entry struct {
	Seq       int
	Task      string
	Node      int
	Call      string // commit, del, delcur
	Muts      []Mut
	Applied   bool
	Err       string
	ErrClass  string // "", cas, uncertain, notfound, other
	Fault     string
	EnterStep uint64      // step in which the node issued the call
	ApplyStep uint64      // step in which the engine executed it (0 = never reached the engine)
	RetMs     int64       // simulated time (ms) at which the call returned
	ApplySeq  int         // global order of engine executions (1-based; 0 = never)
	RetStep   uint64      // step in which the call returned to the node (0 = has not returned)
	Class     string      // data, compact, lock, other
	Tag       interface{} // harness tag of the request in flight on the calling task
	ByRetry   bool
}

// Fault is one planned fault: the Nth call (1-based) matching the filter gets Effect.
type Fault struct {
	Op      string `json:"op"`              // commit, del, delcur, get, iter, next, tso, parts
	Class   string `json:"class,omitempty"` // data, compact, lock, "" = any
	Who     string `json:"who,omitempty"`   // substring of the task name ("" = any)
	Node    int    `json:"node,omitempty"`  // 0 = any, else node id + 1
	Nth     int    `json:"nth"`
	Effect  string `json:"effect"` // err, uncertain-applied, uncertain-lost, cas (del/delcur only), crash-after (node crashes after apply)
	fired   bool
	matched int
}

// Rates are probabilistic faults drawn from the run PRNG at call time.
type Rates struct {
	CommitErr  float64 `json:"commit_err,omitempty"`
	CommitUncA float64 `json:"commit_unc_applied,omitempty"`
	CommitUncL float64 `json:"commit_unc_lost,omitempty"`
	ReadErr    float64 `json:"read_err,omitempty"`
	DelErr     float64 `json:"del_err,omitempty"`
	OnlyClass  string  `json:"only_class,omitempty"`
}

// Freedoms are legal variations of the engine contract.
type Freedoms struct {
	ConflictPlain bool `json:"conflict_plain,omitempty"` // plain ErrCASFailed instead of *Conflict
	LimitHint     bool `json:"limit_hint,omitempty"`     // iterators ignore the limit
	NoTTL         bool `json:"no_ttl,omitempty"`         // SupportTTL()==false, TTLs stripped
	YieldNext     bool `json:"yield_next,omitempty"`     // yield inside Iter.Next
}

// World is the shared engine with its ground truth.
type World struct {
	S       *rt.Sched
	Inner   storage.KvStorage
	Lazy    bool // buffer batch operations until Commit (engines whose Begin takes a lock)
	GT      []*Entry
	Plan    []*Fault
	Rates   Rates
	Free    Freedoms
	Parts   func(start, end []byte) []storage.Partition
	Fired   map[string]int // fault kind -> times actually fired
	Calls   map[string]int // op -> calls
	LockKey []byte         // set by the world for classification
	// OnHookEffect is called after a commit whose planned effect is "hook:<name>" has been applied
	OnHookEffect func(name string)
	CompKey      []byte
	Probes       map[string]int
	// LockLeaks: write batches of a lock-holding engine that were begun and never committed (see yield)
	LockLeaks []string
	openLazy  map[*Batch]string
	OnCrash   func(node int)
	TSOFn     func(inner uint64) uint64
	applySeq  int
	mu        sync.Mutex
	TagFn     func(task string) interface{}
	GetLog    []GetRec // point reads of keys outside the data layout (lock, compaction record)
}

// GetRec is one point read observed at the seam.
type GetRec struct {
	Node int
	Key  string
	Val  []byte
	Err  string
	Step uint64
}

func NewWorld(s *rt.Sched, inner storage.KvStorage, lazy bool) *World {
	return &World{S: s, Inner: inner, Lazy: lazy, Fired: map[string]int{}, Calls: map[string]int{}, Probes: map[string]int{}}
}

// Handle is what one node receives.
type Handle struct {
	W    *World
	Node int
}

func (w *World) Handle(node int) *Handle { return &Handle{W: w, Node: node} }

var ErrInjected = errors.New("simkv: injected engine failure")

func uncertainErr() error { return storage.NewErrUncertainResult(context.DeadlineExceeded) }

func (w *World) classify(muts []Mut) string {
	for _, m := range muts {
		if m.InLay {
			return "data"
		}
		if w.CompKey != nil && bytes.Equal(m.Key, w.CompKey) {
			return "compact"
		}
		if w.LockKey != nil && bytes.Equal(m.Key, w.LockKey) {
			return "lock"
		}
	}
	return "other"
}

func (h *Handle) taskName() string {
	if t := h.W.S.Current(); t != nil {
		return t.Name
	}
	return "?"
}

// yield parks the caller at a seam point; a crashed node's call never returns.
func (h *Handle) yield(site string, key []byte) {
	w := h.W
	if w.S.NodeDead(h.Node) {
		select {} // a dead process gets no answers
	}
	if w.Lazy && (site == "kv.get" || site == "kv.iter" || site == "kv.del" || site == "kv.delcur" || site == "kv.commit") {
		// The engine holds its store lock from BeginBatchWrite to Commit (that is why its batches are
		// replayed at Commit here). A batch that was begun and is still open when another call that needs
		// the lock arrives was abandoned - or its owner went on to other engine calls first: on the real
		// engine this call, and every later one, waits for ever.
		w.mu.Lock()
		for b, owner := range w.openLazy {
			delete(w.openLazy, b)
			w.LockLeaks = append(w.LockLeaks, fmt.Sprintf("write batch begun by %s (%d operations) was not committed when %s called %s", owner, len(b.ops), h.taskName(), site))
		}
		w.mu.Unlock()
	}
	if key != nil {
		w.S.Yield(site, h.Node, key)
	} else {
		w.S.Yield(site, h.Node)
	}
	if w.S.NodeDead(h.Node) {
		select {}
	}
}

// decide returns the effect of a planned or random fault for this call ("" = none).
func (h *Handle) decide(op, class, task string) string {
	w := h.W
	w.mu.Lock()
	defer w.mu.Unlock()
	if holder, isTask := w.S.HoldsToken(); !holder {
		if !isTask {
			// an engine call from a goroutine the scheduler does not know: its order
			// relative to other calls is not decided by the PRNG
			w.S.AddHazard("untracked-engine-call:" + op + "/" + class + "/" + task)
		} else {
			// a task that had blocked outside a yield (scan waiting for its workers) and was
			// woken by the token holder's last action: runs in the same step, by construction
			// after the holder's final access
			w.Probes["engine-call-by-woken-task"]++
		}
	}
	w.Calls[op]++
	for _, f := range w.Plan {
		if f.fired || !(f.Op == op || (f.Op == "anydel" && (op == "del" || op == "delcur"))) {
			continue
		}
		if f.Class != "" && f.Class != class {
			continue
		}
		if f.Who != "" {
			if task == "" {
				task = h.taskName() // read calls do not carry their caller's name
			}
			if !strings.Contains(task, f.Who) {
				continue
			}
		}
		if f.Node != 0 && f.Node-1 != h.Node {
			continue
		}
		f.matched++
		if f.matched == f.Nth {
			f.fired = true
			name := f.Effect
			if strings.HasPrefix(name, "delay:") {
				name = "delay"
			}
			w.Fired[op+":"+name]++
			return f.Effect
		}
	}
	r := w.Rates
	if r.OnlyClass != "" && class != "" && r.OnlyClass != class {
		return ""
	}
	switch op {
	case "commit":
		if r.CommitErr+r.CommitUncA+r.CommitUncL > 0 {
			x := w.S.Rng().Float64()
			switch {
			case x < r.CommitErr:
				w.Fired["commit:err"]++
				return "err"
			case x < r.CommitErr+r.CommitUncA:
				w.Fired["commit:uncertain-applied"]++
				return "uncertain-applied"
			case x < r.CommitErr+r.CommitUncA+r.CommitUncL:
				w.Fired["commit:uncertain-lost"]++
				return "uncertain-lost"
			}
		}
	case "get", "iter", "next", "tso", "parts":
		if r.ReadErr > 0 && w.S.Rng().Chance(r.ReadErr) {
			w.Fired[op+":err"]++
			return "err"
		}
	case "del", "delcur":
		if r.DelErr > 0 && w.S.Rng().Chance(r.DelErr) {
			w.Fired[op+":err"]++
			return "err"
		}
	}
	return ""
}

func errClass(err error) string {
	switch {
	case err == nil:
		return ""
	case errors.Is(err, storage.ErrUncertainResult):
		return "uncertain"
	case errors.Is(err, storage.ErrCASFailed):
		return "cas"
	case errors.Is(err, storage.ErrKeyNotFound):
		return "notfound"
	}
	return "other"
}

func (h *Handle) newEntry(call string, muts []Mut) *Entry {
	w := h.W
	task := h.taskName()
	e := &Entry{Seq: len(w.GT), Task: task, Node: h.Node, Call: call, Muts: muts, EnterStep: w.S.StepNo(),
		Class: w.classify(muts), ByRetry: strings.Contains(task, "retry.tick")}
	w.mu.Lock()
	if w.TagFn != nil {
		e.Tag = w.TagFn(task)
	}
	e.Seq = len(w.GT)
	w.GT = append(w.GT, e)
	w.mu.Unlock()
	return e
}

func (h *Handle) finish(e *Entry, err error) error {
	if h.W.Free.ConflictPlain {
		if _, ok := err.(*storage.Conflict); ok {
			err = storage.ErrCASFailed
		}
	}
	e.RetStep = h.W.S.StepNo()
	e.RetMs = h.W.S.SimTime().Milliseconds()
	if err != nil {
		e.Err = err.Error()
	}
	e.ErrClass = errClass(err)
	return err
}

// ---- storage.KvStorage ----

func (h *Handle) GetTimestampOracle(ctx context.Context) (uint64, error) {
	h.yield("kv.tso", nil)
	if h.decide("tso", "", "") == "err" {
		return 0, ErrInjected
	}
	ts, err := h.W.Inner.GetTimestampOracle(ctx)
	if err == nil && h.W.TSOFn != nil {
		ts = h.W.TSOFn(ts)
	}
	return ts, err
}

func (h *Handle) GetPartitions(ctx context.Context, start, end []byte) ([]storage.Partition, error) {
	h.yield("kv.parts", nil)
	if h.decide("parts", "", "") == "err" {
		return nil, ErrInjected
	}
	if h.W.Parts != nil {
		return h.W.Parts(start, end), nil
	}
	return h.W.Inner.GetPartitions(ctx, start, end)
}

func (h *Handle) Get(ctx context.Context, key []byte) ([]byte, error) {
	h.yield("kv.get", key)
	if h.decide("get", "", "") == "err" {
		return nil, ErrInjected
	}
	v, err := h.W.Inner.Get(ctx, key)
	if _, _, ok := DecodeKey(key); !ok {
		g := GetRec{Node: h.Node, Key: string(key), Val: append([]byte(nil), v...), Step: h.W.S.StepNo()}
		if err != nil {
			g.Err = err.Error()
		}
		h.W.mu.Lock()
		h.W.GetLog = append(h.W.GetLog, g)
		h.W.mu.Unlock()
	}
	h.yield("kv.get.ret", key)
	return v, err
}

func (h *Handle) Iter(ctx context.Context, start, end []byte, ts uint64, limit uint64) (storage.Iter, error) {
	// both bounds identify the caller: two scan workers may share a start key after border adjustment
	h.yield("kv.iter", append(append(append([]byte(nil), start...), '|'), end...))
	if h.decide("iter", "", "") == "err" {
		return nil, ErrInjected
	}
	if h.W.Free.LimitHint {
		limit = 0
	}
	it, err := h.W.Inner.Iter(ctx, start, end, ts, limit)
	if err != nil {
		return nil, err
	}
	return &Iter{h: h, In: it, scan: limit == 0}, nil
}

func (h *Handle) SupportTTL() bool {
	if h.W.Free.NoTTL {
		return false
	}
	return h.W.Inner.SupportTTL()
}

func (h *Handle) Close() error { return nil }

func (w *World) mut(op string, key, val, old []byte, ttl int64) Mut {
	m := Mut{Op: op, Key: append([]byte(nil), key...), Val: append([]byte(nil), val...), Old: append([]byte(nil), old...), TTL: ttl}
	if val == nil {
		m.Val = nil
	}
	if old == nil {
		m.Old = nil
	}
	if raw, rev, ok := DecodeKey(key); ok {
		m.Raw, m.Rev, m.InLay = string(raw), rev, true
	}
	return m
}

func (h *Handle) Del(ctx context.Context, key []byte) error {
	w := h.W
	e := h.newEntry("del", []Mut{w.mut("del", key, nil, nil, 0)})
	h.yield("kv.del", key)
	eff := h.decide("del", e.Class, e.Task)
	e.Fault = eff
	var err error
	switch eff {
	case "err", "uncertain-lost", "cas":
		err = ErrInjected
		if eff == "uncertain-lost" {
			err = uncertainErr()
		}
	default:
		e.ApplyStep = w.S.StepNo()
		w.applySeq++
		e.ApplySeq = w.applySeq
		err = w.Inner.Del(ctx, key)
		e.Applied = err == nil
		if eff == "uncertain-applied" && err == nil {
			err = uncertainErr()
		}
		if eff == "crash-after" {
			h.crash()
		}
	}
	h.yield("kv.del.ret", key)
	return h.finish(e, err)
}

func (h *Handle) crash() {
	h.W.S.CrashNode(h.Node)
	if h.W.OnCrash != nil {
		h.W.OnCrash(h.Node)
	}
	select {}
}

func unwrap(it storage.Iter) storage.Iter {
	if x, ok := it.(*Iter); ok {
		return x.In
	}
	return it
}

func (h *Handle) DelCurrent(ctx context.Context, it storage.Iter) error {
	w := h.W
	key, val := it.Key(), it.Val()
	e := h.newEntry("delcur", []Mut{w.mut("delcur", key, nil, val, 0)})
	h.yield("kv.delcur", key)
	eff := h.decide("delcur", e.Class, e.Task)
	e.Fault = eff
	var err error
	switch eff {
	case "err", "uncertain-lost":
		err = ErrInjected
		if eff == "uncertain-lost" {
			err = uncertainErr()
		}
	case "cas":
		err = storage.ErrCASFailed
	default:
		e.ApplyStep = w.S.StepNo()
		w.applySeq++
		e.ApplySeq = w.applySeq
		err = w.Inner.DelCurrent(ctx, unwrap(it))
		e.Applied = err == nil
		if eff == "uncertain-applied" && err == nil {
			err = uncertainErr()
		}
		if eff == "crash-after" {
			h.crash()
		}
	}
	h.yield("kv.delcur.ret", key)
	return h.finish(e, err)
}

// ---- batches ----

type batchOp struct {
	m  Mut
	it storage.Iter
	// the caller's own slices: an engine that keeps references (memkv) must get these, not the copies
	// in m, or aliasing between a caller's buffer and the stored value would be hidden by the seam
	k, v, o []byte
}

type Batch struct {
	h     *Handle
	ops   []batchOp
	inner storage.BatchWrite // eager mode
}

func (h *Handle) BeginBatchWrite() storage.BatchWrite {
	b := &Batch{h: h}
	if h.W.Lazy {
		h.W.mu.Lock()
		if h.W.openLazy == nil {
			h.W.openLazy = map[*Batch]string{}
		}
		h.W.openLazy[b] = h.taskName()
		h.W.mu.Unlock()
	}
	if !h.W.Lazy {
		if h.W.S.NodeDead(h.Node) {
			select {}
		}
		b.inner = h.W.Inner.BeginBatchWrite()
	}
	return b
}

func (b *Batch) ttl(t int64) int64 {
	if b.h.W.Free.NoTTL {
		return 0
	}
	return t
}

func (b *Batch) PutIfNotExist(key, val []byte, ttl int64) {
	b.ops = append(b.ops, batchOp{m: b.h.W.mut("pine", key, val, nil, ttl), k: key, v: val})
	if b.inner != nil {
		b.inner.PutIfNotExist(key, val, b.ttl(ttl))
	}
}

func (b *Batch) CAS(key, newVal, oldVal []byte, ttl int64) {
	b.ops = append(b.ops, batchOp{m: b.h.W.mut("cas", key, newVal, oldVal, ttl), k: key, v: newVal, o: oldVal})
	if b.inner != nil {
		b.inner.CAS(key, newVal, oldVal, b.ttl(ttl))
	}
}

func (b *Batch) Put(key, val []byte, ttl int64) {
	b.ops = append(b.ops, batchOp{m: b.h.W.mut("put", key, val, nil, ttl), k: key, v: val})
	if b.inner != nil {
		b.inner.Put(key, val, b.ttl(ttl))
	}
}

func (b *Batch) Del(key []byte) {
	b.ops = append(b.ops, batchOp{m: b.h.W.mut("del", key, nil, nil, 0), k: key})
	if b.inner != nil {
		b.inner.Del(key)
	}
}

func (b *Batch) DelCurrent(it storage.Iter) {
	b.ops = append(b.ops, batchOp{m: b.h.W.mut("delcur", it.Key(), nil, it.Val(), 0), it: unwrap(it)})
	if b.inner != nil {
		b.inner.DelCurrent(unwrap(it))
	}
}

func (b *Batch) Commit(ctx context.Context) error {
	h := b.h
	w := h.W
	w.mu.Lock()
	delete(w.openLazy, b)
	w.mu.Unlock()
	muts := make([]Mut, len(b.ops))
	for i, o := range b.ops {
		muts[i] = o.m
	}
	e := h.newEntry("commit", muts)
	var k []byte
	if len(muts) > 0 {
		k = muts[0].Key
	}
	h.yield("kv.commit", k)
	eff := h.decide("commit", e.Class, e.Task)
	e.Fault = eff
	hookEff := ""
	if strings.HasPrefix(eff, "hook:") {
		// the commit goes through; right after it the harness is told (it arms a fault somewhere else)
		hookEff, eff = eff, ""
		defer func() {
			if w.OnHookEffect != nil {
				w.OnHookEffect(hookEff)
			}
		}()
	}
	if strings.HasPrefix(eff, "delay:") {
		// a slow engine: the call stays in flight for that much simulated time (deadlines of the
		// caller run on the same clock), then completes normally
		var ms int64
		fmt.Sscanf(eff, "delay:%d", &ms)
		until := w.S.SimTime() + time.Duration(ms)*time.Millisecond
		w.S.YieldUntil("kv.delay", func() bool { return w.S.SimTime() >= until })
		eff = ""
	}
	var err error
	switch eff {
	case "err", "uncertain-lost":
		if b.inner != nil {
			// abandon the engine transaction: commit an empty-effect path is not
			// available, so let the adapter discard it by committing nothing.
			b.discard()
		}
		err = ErrInjected
		if eff == "uncertain-lost" {
			err = uncertainErr()
		}
	default:
		e.ApplyStep = w.S.StepNo()
		w.applySeq++
		e.ApplySeq = w.applySeq
		inner := b.inner
		if inner == nil {
			inner = w.Inner.BeginBatchWrite()
			for _, o := range b.ops {
				switch o.m.Op {
				case "pine":
					inner.PutIfNotExist(o.k, o.v, b.ttl(o.m.TTL))
				case "cas":
					inner.CAS(o.k, o.v, o.o, b.ttl(o.m.TTL))
				case "put":
					inner.Put(o.k, o.v, b.ttl(o.m.TTL))
				case "del":
					inner.Del(o.k)
				case "delcur":
					inner.DelCurrent(o.it)
				}
			}
		}
		err = inner.Commit(ctx)
		e.Applied = err == nil
		if eff == "uncertain-applied" {
			if err == nil {
				err = uncertainErr()
			} else {
				// the engine gave a definite answer (failed condition / conflict): nothing uncertain about it
				e.Fault = ""
				w.Fired["commit:"+eff]--
			}
		}
		if eff == "crash-after" {
			h.crash()
		}
	}
	h.yield("kv.commit.ret", k)
	return h.finish(e, err)
}

// discard releases an eager inner batch without applying it. The adapters have
// no rollback in the interface; Badger/TiKV transactions are garbage once
// unreferenced (Badger: Discard is deferred inside Commit only), so we make the
// batch fail its first condition by committing a poisoned copy instead: simply
// drop the reference. Badger read-write txns hold no lock until Commit.
func (b *Batch) discard() { b.inner = nil }

// ---- iterators ----

type Iter struct {
	h    *Handle
	In   storage.Iter
	n    int
	scan bool // opened without a limit: a range / count / stream / compaction scan, not a point read
}

func (i *Iter) Key() []byte { return i.In.Key() }
func (i *Iter) Val() []byte { return i.In.Val() }
func (i *Iter) Next(ctx context.Context) error {
	if i.h.W.Free.YieldNext {
		i.h.yield("kv.next", nil)
	}
	if i.h.W.Rates.ReadErr > 0 || len(i.h.W.Plan) > 0 {
		if i.h.decide("next", "", "") == "err" {
			return ErrInjected
		}
		// planned faults can address unlimited scans only ("scannext"): the point reads inside writes stay healthy
		if i.scan && len(i.h.W.Plan) > 0 && i.h.decide("scannext", "", "") == "err" {
			return ErrInjected
		}
	}
	i.n++
	return i.In.Next(ctx)
}
func (i *Iter) Close() error { return i.In.Close() }

// ---- ground truth helpers (called from the scheduler goroutine, never yield) ----

// Dump scans the whole inner engine.
func (w *World) Dump() (keys [][]byte, vals [][]byte, err error) {
	lo := []byte{0}
	hi := bytes.Repeat([]byte{0xff}, 64)
	it, err := w.Inner.Iter(context.Background(), lo, hi, 0, 0)
	if err != nil {
		return nil, nil, err
	}
	defer it.Close()
	for {
		err := it.Next(context.Background())
		if err == io.EOF {
			return keys, vals, nil
		}
		if err != nil {
			return nil, nil, err
		}
		keys = append(keys, append([]byte(nil), it.Key()...))
		vals = append(vals, append([]byte(nil), it.Val()...))
	}
}

// Shadow replays the applied entries on a plain map (no TTL expiry).
func (w *World) Shadow() map[string][]byte {
	m := map[string][]byte{}
	var applied []*Entry
	for _, e := range w.GT {
		if e.Applied {
			applied = append(applied, e)
		}
	}
	sort.SliceStable(applied, func(i, j int) bool { return applied[i].ApplySeq < applied[j].ApplySeq })
	for _, e := range applied {
		for _, mu := range e.Muts {
			switch mu.Op {
			case "put", "pine", "cas":
				m[string(mu.Key)] = mu.Val
			case "del", "delcur":
				delete(m, string(mu.Key))
			}
		}
	}
	return m
}

// VerifyInner compares a full scan of the engine with the shadow model.
// Keys written with a TTL on a TTL-capable engine are skipped when skipTTL.
func (w *World) VerifyInner(skipTTL bool) error {
	keys, vals, err := w.Dump()
	if err != nil {
		return fmt.Errorf("dump: %v", err)
	}
	sh := w.Shadow()
	ttl := map[string]bool{}
	if skipTTL {
		for _, e := range w.GT {
			for _, mu := range e.Muts {
				if mu.TTL != 0 {
					ttl[string(mu.Key)] = true
				}
			}
		}
	}
	seen := map[string]bool{}
	for i, k := range keys {
		ks := string(k)
		seen[ks] = true
		if ttl[ks] {
			continue
		}
		v, ok := sh[ks]
		if !ok {
			return fmt.Errorf("engine holds key %q that ground truth does not", ks)
		}
		if !bytes.Equal(v, vals[i]) {
			return fmt.Errorf("engine value for %q = %q, ground truth %q", ks, vals[i], v)
		}
	}
	for k := range sh {
		if !seen[k] && !ttl[k] {
			return fmt.Errorf("ground truth holds key %q that the engine lost", k)
		}
	}
	return nil
}

// StopFaults ends all fault injection (planned and random).
func (w *World) StopFaults() {
	w.Rates = Rates{}
	for _, f := range w.Plan {
		f.fired = true
	}
}

// ApplyCount is the number of engine executions so far (the ApplySeq of the latest one).
func (w *World) ApplyCount() int { return w.applySeq }
