package props

import (
	"context"
	"fmt"
	"os"
	"sort"
	"strings"
	"testing"
	"time"

	"github.com/kubewharf/kubebrain/pkg/server/service/leader"

	"verif/sim/model"
	"verif/sim/rt"
	"verif/sim/simkv"
	"verif/sim/world"
)

// C15 — revisions keep increasing across leader changes and restarts.
// The real client-go elector runs on the simulated clock (leader.NewLeaderElection(...).Campaign).

func genC15(r *rt.Rand, tier string, idx int) *world.Scenario {
	sc := &world.Scenario{Prefix: prefix, Seed: r.Uint64(), InitRev: 0, EtcdCompat: true}
	switch idx % 6 {
	case 2, 3:
		sc.Engine = "badger"
	case 5:
		sc.Engine = "tikv"
	default:
		sc.Engine = "memkv"
	}
	sc.Class = "leader-crash-then-new-leader"
	sc.Extra = map[string]int64{}
	if r.Chance(0.5) {
		sc.Extra["standby"] = 1 // the second node campaigns from the start (fail-over) instead of after the crash (restart)
		sc.Class = "leader-crash-with-standby"
	}
	if sc.Extra["standby"] == 0 && r.Chance(0.3) {
		sc.Extra["drop_lock"] = 1
		sc.Class += "+election-record-removed"
	}
	keys := []string{prefix + "/a", prefix + "/b", prefix + "/a/b", prefix + "/pods/ns/p1"}
	var cl world.Client
	n := 4 + r.Intn(26)
	failHeavy := r.Chance(0.5)
	for i := 0; i < n; i++ {
		k := keys[r.Intn(len(keys))]
		v := fmt.Sprintf("v%d", i)
		w := []int{25, 30, 15, 30}
		if failHeavy {
			w = []int{10, 10, 5, 75}
		}
		switch r.Weighted(w...) {
		case 0:
			cl.Ops = append(cl.Ops, world.Op{K: "create", Key: k, Val: v})
		case 1:
			cl.Ops = append(cl.Ops, world.Op{K: "update", Key: k, Val: v, Rev: world.Rev{M: "known"}})
		case 2:
			cl.Ops = append(cl.Ops, world.Op{K: "delete", Key: k, Rev: world.Rev{M: "known"}})
		case 3:
			// a failing write: consumes a revision without touching the engine
			if r.Chance(0.2) {
				// a guarded update naming a revision nobody was ever given
				cl.Ops = append(cl.Ops, world.Op{K: "update", Key: k, Val: v, Rev: world.Rev{M: "abs", N: int64(1)<<62 + int64(r.Intn(1000))}})
			} else if r.Chance(0.5) {
				cl.Ops = append(cl.Ops, world.Op{K: "delete", Key: prefix + "/missing", Rev: world.Rev{M: "zero"}})
			} else {
				cl.Ops = append(cl.Ops, world.Op{K: "update", Key: k, Val: v, Rev: world.Rev{M: "abs", N: 1}})
			}
		}
		if r.Chance(0.1) {
			cl.Ops = append(cl.Ops, world.Op{K: "sleep", Ms: int64(200 + r.Intn(2500))})
		}
		if sc.Extra["standby"] != 0 && r.Chance(0.15) {
			// the standby serves a follower read: it adopts the leader's revision (and must not keep it when it takes over)
			cl.Ops = append(cl.Ops, world.Op{K: "waitcommitted"}, world.Op{K: "followersync", Node: 1, W: 0})
			if r.Chance(0.5) {
				// ... and the answer to an earlier read arrives after it
				cl.Ops = append(cl.Ops, world.Op{K: "followersync", Node: 1, W: 0, Limit: int64(1 + r.Intn(3))})
			}
			if r.Chance(0.3) {
				// ... or a read whose request the leader has answered and whose answer the standby applies only
				// after it has taken over (the reader's goroutine checked "am I leader" before it asked)
				cl.Ops = append(cl.Ops, world.Op{K: "followersync", Node: 1, W: 0, Ms: 1})
				sc.Extra["tso_yield"] = 1
				sc.Extra["stallrand:tso.commit"] = int64(4 + r.Intn(12))
			}
		}
	}
	if idx%180 == 13 {
		// a leader that hands out revisions much faster than the clock runs (tens of thousands of writes
		// within one simulated second), then a leader change
		sc.Class += "+write-burst"
		cl.Ops = append(cl.Ops, world.Op{K: "burst", Key: keys[0], Val: "x", Limit: int64(25000 + r.Intn(10000))})
		sc.Inactive = []string{"kv.get.ret", "kv.commit.ret", "kv.parts", "seq.cache", "seq.bcast", "seq.sent", "hub.recv", "client.next"}
		sc.Stick = 0.9
	}
	// the old leader stops after an arbitrary request
	at := r.Intn(len(cl.Ops) + 1)
	if idx%180 == 13 {
		at = len(cl.Ops) // after the burst
	}
	ops := append([]world.Op{}, cl.Ops[:at]...)
	if sc.Extra["standby"] != 0 && idx%180 != 13 && r.Chance(0.3) {
		// the standby's last follower read before the fail-over is still in flight when it takes over: the
		// old leader has answered (and may have written a little more since), the answer is applied late
		cut := len(ops) - r.Intn(3)
		if cut < 0 {
			cut = 0
		}
		tail := append([]world.Op{}, ops[cut:]...)
		ops = append(ops[:cut:cut], world.Op{K: "waitcommitted"}, world.Op{K: "followersync", Node: 1, W: 0, Ms: 1})
		ops = append(ops, tail...)
		sc.Extra["tso_yield"] = 1
		sc.Extra["stallrand:tso.commit"] = int64(4 + r.Intn(12))
	}
	ops = append(ops, world.Op{K: "crash", Node: 0})
	sc.Clients = []world.Client{{Ops: ops}}
	if (idx/6+idx)%3 == 1 {
		// the engine's timestamp oracle fails on the k-th call of the node that takes over
		sc.Class += "+oracle-fault"
		// (a standby polls the lock about once a second until the lease expires: the call right after
		// its successful lock update is somewhere among its first ~16 oracle reads)
		if sc.Engine == "tikv" && r.Chance(0.5) {
			// ... below the adapter: after the k-th write of the election record by that node the placement
			// driver answers no timestamp request for a moment (every client connection sees the outage)
			sc.Class += "(below-the-adapter)"
			sc.Plan = append(sc.Plan, &simkv.Fault{Op: "commit", Class: "lock", Node: 2, Nth: 1 + r.Intn(3), Effect: "hook:tikv-oracle-outage"})
		} else {
			for _, k := range r.Perm(16)[:4] {
				sc.Plan = append(sc.Plan, &simkv.Fault{Op: "tso", Node: 2, Nth: k + 1, Effect: "err"})
			}
		}
	}
	sc.MaxSteps = 60000
	if idx%180 == 13 {
		sc.MaxSteps = 2000000
	}
	return sc
}

// idx180: the write-burst class is long enough as it is
func idx180(sc *world.Scenario) bool { return !strings.Contains(sc.Class, "write-burst") }

func c15Custom(t *testing.T, sc *world.Scenario, out *Outcome) {
	const P = "C15"
	w, err := world.New(sc)
	if err != nil {
		out.Infra = err.Error()
		return
	}
	defer w.Teardown()
	w.FineClock = true
	w.YieldOnSetRevision = true
	s := w.S
	w.KV.LockKey = []byte(prefix + "/election")
	w.KV.OnHookEffect = func(string) {
		w.TiKVOracleOutage = 3
		out.probe("tikv-oracle-outage-after-lock-write")
	}
	start := func(n *world.Node) leader.LeaderElection {
		le := leader.NewLeaderElection(n.B, n.M, func(context.Context) {}, func() {})
		s.Go(fmt.Sprintf("elector%d", n.ID), n.ID, le.Campaign)
		s.Settle()
		return le
	}
	until := func(cond func() bool, simBudget time.Duration) bool {
		deadline := s.SimTime() + simBudget
		for steps := 0; steps < 40000 && !cond(); steps++ {
			if !s.Step() {
				if s.SimTime() > deadline {
					return false
				}
				s.Advance(250 * time.Millisecond)
			}
		}
		return cond()
	}
	a := w.AddNode()
	leA := start(a)
	if !until(leA.IsLeader, 20*time.Second) {
		out.Infra = "first node never became leader"
		return
	}
	firstRevA := a.B.GetCurrentRevision()
	var leB leader.LeaderElection
	var b *world.Node
	if sc.Extra["standby"] != 0 {
		b = w.AddNode()
		leB = start(b)
	}
	w.Start()
	w.Run()
	if !s.NodeDead(0) {
		out.Infra = "old leader did not stop"
		return
	}
	if sc.Extra["drop_lock"] != 0 && sc.Extra["standby"] == 0 {
		// the election record is gone while the data is there (removed to force an election, or data restored
		// without it): the next leader comes to power through the lock's Create path
		if err := w.KV.Inner.Del(context.Background(), w.KV.LockKey); err == nil {
			out.probe("election-record-removed-before-restart")
		}
	}
	// everything the old leader left in the store
	mBefore := model.FromGT(w.KV.GT)
	maxStored := mBefore.MaxRev()
	if b == nil {
		b = w.AddNode()
		leB = start(b)
	}
	lateSync := false
	lateDone := true
	if len(w.HeldSyncs) > 0 && sc.Seed%2 == 1 {
		// the held answer is applied by the reader's goroutine while the node takes over: its
		// SetCurrentRevision races with the one of the leader callback
		lateDone = false
		s.Go("late-sync", b.ID, func() {
			// (IsLeader turns true only after the callback has set the revision: wake at the callback's start)
			s.YieldUntil("latesync.wait", func() bool { return b.M.Counter("leader.election.success") > 0 || leB.IsLeader() })
			for _, h := range w.HeldSyncs {
				if h.Node == b.ID {
					b.B.SetCurrentRevision(h.Rev)
					out.probe("late-follower-sync-applied-during-takeover")
					lateSync = true
				}
			}
			w.HeldSyncs = nil
			lateDone = true
		})
	}
	if !until(func() bool { return leB.IsLeader() && lateDone }, 40*time.Second) {
		out.violate(P, "no-new-leader", "no-new-leader", "no node became leader within 40 simulated seconds after the old leader stopped")
		return
	}
	out.probe("new-leader-elected")
	startRevB := b.B.GetCurrentRevision()
	if maxStored > 0 {
		out.NonTrivial = true
	}
	eng := " engine=" + sc.Engine
	if startRevB < maxStored {
		out.probe("new-leader-starts-below-stored-revisions")
	}
	// probes on the new leader, against a healthy engine (the outage below the TiKV adapter included: a lock
	// renewal during the probes must not arm it again, and what is left of it must not meet the probes' reads)
	w.KV.StopFaults()
	w.KV.OnHookEffect = nil
	w.TiKVOracleOutage = 0
	var firstNew uint64
	okRun := w.RunTask("c15-probe", -1, 20000, func() {
		// an unguarded delete as the new leader's very first write: whatever revision the node starts
		// from, a key's history never goes backwards (the write is refused or lands above the stored version)
		gone := ""
		for _, h := range w.HeldSyncs {
			if h.Node != b.ID {
				continue
			}
			b.B.SetCurrentRevision(h.Rev)
			out.probe("late-follower-sync-applied-after-takeover")
			lateSync = true
		}
		if lateSync {
			// before any write of the new leader: what the old leader wrote is visible at the new leader's revision
			l := w.ProbeOp(world.Op{K: "list", Key: "/", End: "0", Node: 1})
			if l != nil && l.Err == "" {
				if want := mBefore.Snap(0, "/", "0"); !model.EqualKVs(kvsOf(l.KVs), want) {
					sig := "data-not-visible-on-new-leader after-late-follower-sync" + eng
					if startRevB < maxStored {
						sig = "data-not-visible-on-new-leader" + eng // the node started below the stored revisions: not the late answer's doing
					}
					out.violate(P, "data-not-visible-on-new-leader", sig,
						"a follower read's revision answer (sampled by the old leader) was applied after the node took over: List at the new leader's revision %d returned %s; the store holds %s (new leader initialised at %d)", l.Hdr, fmtKVs(kvsOf(l.KVs)), fmtKVs(want), startRevB)
				}
			}
		}
		{
			var live []string
			for k := range mBefore.Keys {
				if v, ok := mBefore.At(k, 0); ok && !v.Tomb {
					live = append(live, k)
				}
			}
			sort.Strings(live)
			if len(live) >= 2 && sc.Seed%2 == 0 {
				k := live[len(live)-1]
				v, _ := mBefore.At(k, 0)
				d := w.ProbeOp(world.Op{K: "delete", Key: k, Rev: world.Rev{M: "zero"}, Node: 1})
				out.probe("unguarded-delete-as-first-write")
				if d != nil && d.OK && d.Err == "" {
					gone = k
					if d.Hdr <= v.Rev {
						out.violate(P, "key-history-went-backwards", "key-history-went-backwards op=delete"+eng,
							"unguarded delete of %s on the new leader succeeded with revision %d although the key's stored version has revision %d (new leader initialised at %d)", k, d.Hdr, v.Rev, startRevB)
					}
				}
			}
		}
		r := w.ProbeOp(world.Op{K: "create", Key: prefix + "/zz-new-leader", Val: "x", Node: 1})
		if os.Getenv("VERIF_DEBUG") != "" && r != nil {
			fmt.Fprintf(os.Stderr, "C15DBG late=%v held=%v startRevB=%d maxStored=%d first=%d err=%q\n", lateSync, w.HeldSyncs, startRevB, maxStored, r.Hdr, r.Err)
		}
		if r != nil && r.Err == "" {
			firstNew = r.Hdr
			if r.Hdr <= maxStored {
				out.violate(P, "revision-not-above-stored", "revision-not-above-stored"+eng,
					"the new leader stamped its first write with revision %d although the store already holds revision %d (old leader started at %d; new leader initialised at %d)", r.Hdr, maxStored, firstRevA, startRevB)
			}
		} else if r != nil {
			out.violate(P, "new-leader-write-failed", "new-leader-write-failed"+eng, "first write on the new leader failed: %s", r.Err)
		}
		// guarded writes on pre-existing keys keep working
		var ks []string
		for k := range mBefore.Keys {
			ks = append(ks, k)
		}
		sort.Strings(ks)
		for _, k := range ks {
			v, ok := mBefore.At(k, 0)
			if !ok || v.Tomb || k == gone {
				continue
			}
			u := w.ProbeOp(world.Op{K: "update", Key: k, Val: "after-failover", Rev: world.Rev{M: "abs", N: int64(v.Rev)}, Node: 1})
			if u == nil {
				continue
			}
			if u.Err == "" && u.OK && u.Hdr < v.Rev {
				// whatever the node starts from: an accepted write never takes a key's history backwards
				// (a write that reuses exactly the stored revision is the Badger finding's business, below)
				out.violate(P, "key-history-went-backwards", "key-history-went-backwards op=update"+eng,
					"guarded update of %s on the new leader succeeded with revision %d although the version it replaced has revision %d (new leader initialised at %d)", k, u.Hdr, v.Rev, startRevB)
				continue
			}
			if u.Err != "" || !u.OK {
				out.violate(P, "guarded-write-on-existing-key-refused", "guarded-write-on-existing-key-refused"+eng,
					"update of %s with its current revision %d on the new leader: ok=%v err=%q (allocated %d)", k, v.Rev, u.OK, u.Err, u.Hdr)
				continue
			}
			if u.Hdr <= maxStored {
				out.violate(P, "revision-not-above-stored", "revision-not-above-stored"+eng, "update on the new leader got revision %d, store already held %d", u.Hdr, maxStored)
			}
			d := w.ProbeOp(world.Op{K: "delete", Key: k, Rev: world.Rev{M: "abs", N: int64(u.Hdr)}, Node: 1})
			if d != nil && (d.Err != "" || !d.OK) {
				out.violate(P, "guarded-write-on-existing-key-refused", "guarded-write-on-existing-key-refused"+eng, "delete of %s with its current revision %d on the new leader: ok=%v err=%q", k, u.Hdr, d.OK, d.Err)
			}
			break
		}
		w.ProbeOp(world.Op{K: "waitcommitted", Node: 1})
		// everything written before remains visible at the new leader's revision
		l := w.ProbeOp(world.Op{K: "list", Key: "/", End: "0", Node: 1})
		if l != nil && l.Err == "" {
			mNow := model.FromGT(w.KV.GT)
			want := mNow.Snap(l.Hdr, "/", "0")
			if !model.EqualKVs(kvsOf(l.KVs), want) {
				out.violate(P, "data-not-visible-on-new-leader", "data-not-visible-on-new-leader"+eng,
					"List at the new leader's revision %d returned %s; the store holds %s (max stored revision before fail-over %d)", l.Hdr, fmtKVs(kvsOf(l.KVs)), fmtKVs(mNow.Snap(0, "/", "0")), maxStored)
			}
		} else if l != nil {
			out.violate(P, "new-leader-read-failed", "new-leader-read-failed"+eng, "List on the new leader failed: %s", l.Err)
		}
	})
	if !okRun {
		out.Inconclusive = "probe task did not finish"
	}
	_ = firstNew
	if okRun && sc.Seed%4 == 0 && len(out.Violations) == 0 && sc.Extra["drop_lock"] == 0 && idx180(sc) {
		// a second fail-over: whatever the first new leader started from and wrote, the next one
		// starts above all of it again
		s.CrashNode(b.ID)
		m2 := model.FromGT(w.KV.GT)
		max2 := m2.MaxRev()
		c := w.AddNode()
		leC := start(c)
		if !until(leC.IsLeader, 60*time.Second) {
			out.violate(P, "no-new-leader", "no-new-leader second-fail-over", "no node became leader within 60 simulated seconds after the second leader stopped")
		} else {
			out.probe("second-fail-over")
			startRevC := c.B.GetCurrentRevision()
			w.RunTask("c15-probe-2", -1, 20000, func() {
				r := w.ProbeOp(world.Op{K: "create", Key: prefix + "/zz-third-leader", Val: "x", Node: c.ID})
				switch {
				case r == nil:
				case r.Err != "":
					out.violate(P, "new-leader-write-failed", "new-leader-write-failed"+eng, "first write on the leader after the second fail-over failed: %s", r.Err)
				case r.Hdr <= max2:
					out.violate(P, "revision-not-above-stored", "revision-not-above-stored"+eng,
						"after a second fail-over the new leader stamped its first write with revision %d although the store already holds revision %d (this leader initialised at %d, the one before at %d)", r.Hdr, max2, startRevC, startRevB)
				}
				var ks []string
				for k := range m2.Keys {
					ks = append(ks, k)
				}
				sort.Strings(ks)
				for _, k := range ks {
					v, ok := m2.At(k, 0)
					if !ok || v.Tomb {
						continue
					}
					u := w.ProbeOp(world.Op{K: "update", Key: k, Val: "after-second-failover", Rev: world.Rev{M: "abs", N: int64(v.Rev)}, Node: c.ID})
					if u != nil && (u.Err != "" || !u.OK) {
						out.violate(P, "guarded-write-on-existing-key-refused", "guarded-write-on-existing-key-refused"+eng,
							"after a second fail-over: update of %s with its current revision %d: ok=%v err=%q", k, v.Rev, u.OK, u.Err)
					}
					break
				}
			})
		}
	}
	failing := 0
	for _, r := range w.Recs {
		if r.Client >= 0 && isWrite(r.Op.K) && r.Done && !r.OK {
			failing++
		}
	}
	if failing > 0 {
		out.probe("old-leader-had-failing-writes")
	}
	if len(w.Fatals) > 0 {
		// a node that loses its lease ends its process: a restart, which this property is about
		out.probe("node-ended-itself(klog.Fatal)")
	}
	out.Steps = s.StepNo()
	out.SimMs = s.SimTime().Milliseconds()
	out.Hash = s.Hash()
	out.Hazards = s.Hazards
	out.Ops = len(w.Recs)
	out.Fired = w.KV.Fired
	reportLockLeaks("C15", w, out)
	out.SiteHits = s.SiteHits
	out.StateHash = stateHash(w)
	out.Trace = s.Trace
}

func init() {
	register(&Prop{ID: "C15", Gen: genC15, Custom: c15Custom})
}
