package props

import (
	"fmt"
	"strings"

	"verif/sim/model"
	"verif/sim/rt"
	"verif/sim/simkv"
	"verif/sim/world"
)

// C17 — expiry removes only event keys, wholly, and only after the TTL.

const c17TTLms = 3600 * 1000

func isEventKey(k string) bool { return strings.HasPrefix(k, prefix+"/events/") }

var c17Keys = []string{prefix + "/events/ns/e1", prefix + "/events/ns/e2", prefix + "/pods/events/p1", prefix + "/events-x/y", prefix + "/x/events/z", prefix + "/pods/ns/p2"}

func genC17(r *rt.Rand, tier string, idx int) *world.Scenario {
	sc := &world.Scenario{Prefix: prefix, InitRev: pickInitRev(r), Seed: r.Uint64(), EtcdCompat: true}
	sc.Extra = map[string]int64{"lockstep": 1, "skip_verify": 1}
	switch idx % 5 {
	case 0, 1:
		sc.Engine, sc.Class = "memkv", "native-ttl-memkv"
	case 2:
		sc.Engine, sc.Class = "badger", "native-ttl-badger"
	case 3:
		sc.Engine, sc.Class = "memkv", "ttl-less-engine-via-seam"
		sc.Free.NoTTL = true
	case 4:
		sc.Engine, sc.Class = "tikv", "ttl-less-tikv"
	}
	if (idx%5 == 3 || idx%5 == 4) && (idx/5)%2 == 1 {
		// a client renews Events while the expiry pass of a compaction is removing them
		sc.Class += "+racing-renewal"
		sc.Extra = map[string]int64{"skip_verify": 1}
		e := []string{prefix + "/events/ns/e1", prefix + "/events/ns/e2"}
		c0 := world.Client{Ops: []world.Op{{K: "watch", Key: prefix + "/", W: 1, Consume: "eager"}, {K: "create", Key: e[0], Val: "a"}, {K: "create", Key: e[1], Val: "b"},
			{K: "waitcommitted"}, {K: "compact", Rev: world.Rev{M: "zero"}}, {K: "sleep", Ms: 3_700_000}, {K: "compact", Rev: world.Rev{M: "zero"}}, {K: "sleep", Ms: 1000}}}
		c1 := world.Client{Ops: []world.Op{{K: "sleep", Ms: int64(3_699_000 + r.Intn(1200))}}}
		for i := 0; i < 1+r.Intn(3); i++ {
			k := e[r.Intn(2)]
			c1.Ops = append(c1.Ops, world.Op{K: "get", Key: k}, world.Op{K: "update", Key: k, Val: fmt.Sprintf("renew%d", i), Rev: world.Rev{M: "known"}})
		}
		for _, k := range c17Keys {
			c0.Ops = append(c0.Ops, world.Op{K: "get", Key: k})
		}
		sc.Clients = []world.Client{c0, c1}
		sc.MaxSteps = 80000
		return sc
	}
	if (idx%5 == 3 || idx%5 == 4) && (idx/5)%4 == 2 {
		// the expiry pass meets transient delete errors: an Event it could not remove stays whole
		sc.Class += "+delete-errors"
		sc.Rates.DelErr = 0.1 + 0.4*r.Float64()
	}
	pauses := []int64{10_000, 600_000, 1_790_000, 1_810_000, 3_590_000, 3_610_000, 4_000_000, 100_000, 3_599_450, 3_600_350, 600, 1_450}
	// requests may carry a lease (Kubernetes sends one with Events and with master leases): expiry is decided
	// by the key, never by the request's lease
	lease := func() int64 {
		if r.Chance(0.25) {
			return int64(1 + r.Intn(5))
		}
		return 0
	}
	var cl world.Client
	cl.Ops = append(cl.Ops, world.Op{K: "watch", Key: prefix + "/", W: 1, Consume: "eager"})
	n := 8 + r.Intn(16)
	for i := 0; i < n; i++ {
		k := c17Keys[r.Intn(len(c17Keys))]
		v := fmt.Sprintf("v%d", i)
		switch r.Weighted(22, 16, 6, 22, 14, 20) {
		case 0:
			cl.Ops = append(cl.Ops, world.Op{K: "create", Key: k, Val: v, Lease: lease()})
		case 1:
			cl.Ops = append(cl.Ops, world.Op{K: "get", Key: k}, world.Op{K: "update", Key: k, Val: v, Rev: world.Rev{M: "known"}, Lease: lease()})
		case 2:
			cl.Ops = append(cl.Ops, world.Op{K: "get", Key: k}, world.Op{K: "delete", Key: k, Rev: world.Rev{M: "known"}})
		case 3:
			cl.Ops = append(cl.Ops, world.Op{K: "sleep", Ms: pauses[r.Intn(len(pauses))]})
		case 4:
			if r.Chance(0.3) {
				// a compaction request naming a revision the node has not reached yet (a too large number, the
				// header of a response not yet committed): its mark must not cover writes of the future
				cl.Ops = append(cl.Ops, world.Op{K: "compact", Rev: world.Rev{M: "committed", N: int64(1 + r.Intn(3000))}})
			} else if r.Chance(0.3) {
				// ... or an old one (a client that compacts at a revision it read a while ago)
				cl.Ops = append(cl.Ops, world.Op{K: "compact", Rev: world.Rev{M: "committed", N: -int64(1 + r.Intn(12))}})
			} else {
				cl.Ops = append(cl.Ops, world.Op{K: "compact", Rev: world.Rev{M: "zero"}})
			}
		case 5:
			cl.Ops = append(cl.Ops, world.Op{K: "get", Key: k})
			if r.Chance(0.4) {
				cl.Ops = append(cl.Ops, world.Op{K: "list", Key: prefix + "/", End: prefix + "0"})
			}
		}
	}
	if (idx%5 == 3 || idx%5 == 4) && r.Chance(0.25) {
		// a mark taken late in a second, and a compaction a hair less than one TTL after it
		e := c17Keys[r.Intn(2)]
		cl.Ops = append(cl.Ops, world.Op{K: "get", Key: e}, world.Op{K: "update", Key: e, Val: "late", Rev: world.Rev{M: "known"}}, world.Op{K: "create", Key: e, Val: "late"},
			world.Op{K: "sleep", Ms: int64(50 + r.Intn(900))}, world.Op{K: "compact", Rev: world.Rev{M: "zero"}},
			world.Op{K: "sleep", Ms: int64(3_599_000 + r.Intn(990))}, world.Op{K: "compact", Rev: world.Rev{M: "zero"}}, world.Op{K: "sleep", Ms: 5}, world.Op{K: "get", Key: e})
	}
	// final observation of everything, after a last compaction mark sequence on TTL-less engines
	cl.Ops = append(cl.Ops, world.Op{K: "compact", Rev: world.Rev{M: "zero"}}, world.Op{K: "sleep", Ms: 1000})
	for _, k := range c17Keys {
		cl.Ops = append(cl.Ops, world.Op{K: "get", Key: k})
	}
	cl.Ops = append(cl.Ops, world.Op{K: "list", Key: prefix + "/", End: prefix + "0"})
	sc.Clients = []world.Client{cl}
	sc.MaxSteps = 80000
	return sc
}

// c17Epilogue: keys that expired must be creatable again.
func c17Epilogue(c *Ctx) {
	w := c.W
	m := model.FromGT(w.KV.GT)
	w.RunTask("c17-recreate", -1, 8000, func() {
		for _, k := range c17Keys {
			g := w.ProbeOp(world.Op{K: "get", Key: k})
			v, ok := m.At(k, 0)
			if g != nil && g.Err == "" && g.KV == nil && ok && !v.Tomb {
				// the model says live, the node says absent: expired. It must be creatable again.
				r := w.ProbeOp(world.Op{K: "create", Key: k, Val: "again"})
				if r != nil && (r.Err != "" || !r.OK) {
					c.Out.violate("C17", "expired-key-not-creatable", "expired-key-not-creatable", "key %s expired but cannot be created again: ok=%v err=%q", k, r.OK, r.Err)
				} else {
					c.Out.probe("expired-key-created-again")
				}
			}
		}
	})
	w.Idle(2e9, 3000)
}

func checkC17(c *Ctx) {
	const P = "C17"
	w, out, m := c.W, c.Out, c.M
	// time (simulated ms) of the newest successful client write per key, as of a moment
	type wr struct {
		ms   int64
		step uint64
		rev  uint64
		del  bool
	}
	writes := map[string][]wr{}
	for _, r := range w.Recs {
		if isWrite(r.Op.K) && r.Done && r.OK && r.Err == "" && r.Client >= 0 {
			writes[r.Op.Key] = append(writes[r.Op.Key], wr{r.RetMs, r.Ret, r.Hdr, r.Op.K == "delete"})
		}
	}
	newestBefore := func(key string, step uint64) (wr, bool) {
		var best wr
		ok := false
		for _, x := range writes[key] {
			if x.step < step {
				best, ok = x, true
			}
		}
		return best, ok
	}
	engineClass := " class=" + c.Sc.Class
	// native TTLs count in whole seconds. Engines without one expire by compaction marks: a mark is taken after
	// the writes it covers and acts a full TTL later, so (single sequential client) nothing goes early at all
	tolerance := int64(1000)
	if strings.HasPrefix(c.Sc.Class, "ttl-less") && !strings.Contains(c.Sc.Class, "racing") {
		tolerance = 20
	}
	observe := func(r *world.Rec, key string, got *world.KV) {
		nw, ok := newestBefore(key, r.Inv)
		if !ok || nw.del {
			return
		}
		v, mok := m.At(key, r.Hdr)
		if !mok || v.Tomb {
			return
		}
		if got != nil {
			if got.Rev != v.Rev || got.Val != string(v.Val) {
				out.violate(P, "wrong-read", "wrong-read", "read of %s at t=%ds returned %+v, model %q@%d", key, r.InvMs/1000, got, v.Val, v.Rev)
			}
			return
		}
		// the node says absent although the newest write was not a delete: the key was removed by expiry
		age := r.InvMs - nw.ms
		out.probe("expiry-observed")
		switch {
		case !isEventKey(key):
			look := ""
			if strings.Contains(key, "/events/") {
				look = " key-contains-/events/"
			}
			out.violate(P, "non-event-key-expired", "non-event-key-expired"+look, "%s is not an Event record (not under %s/events/) but was removed by expiry %d s after its newest change", key, prefix, age/1000)
		case age < c17TTLms-tolerance:
			upd := ""
			if len(writes[key]) > 1 {
				upd = " after-update"
			}
			out.violate(P, "young-event-expired", "young-event-expired"+upd+engineClass, "event %s was removed %d s after its newest change (TTL 3600 s)", key, age/1000)
		}
	}
	for _, r := range w.Recs {
		if !r.Done || r.Err != "" || r.Client < 0 {
			continue
		}
		switch r.Op.K {
		case "get":
			if r.RevAbs == 0 {
				observe(r, r.Op.Key, r.KV)
			}
		case "list":
			if r.RevAbs == 0 {
				seen := map[string]*world.KV{}
				for i := range r.KVs {
					seen[r.KVs[i].Key] = &r.KVs[i]
				}
				for _, k := range c17Keys {
					observe(r, k, seen[k])
				}
			}
		}
	}
	// whole removal: at the end a key's index record and newest version are both there or both gone
	keys, vals, err := w.KV.Dump()
	if err == nil {
		idx := map[string]uint64{}
		vers := map[string]map[uint64]bool{}
		for i, k := range keys {
			raw, rev, ok := simkv.DecodeKey(k)
			if !ok {
				continue
			}
			if rev == 0 {
				if len(vals[i]) >= 8 {
					var x uint64
					for _, b := range vals[i][:8] {
						x = x<<8 | uint64(b)
					}
					idx[string(raw)] = x
				}
			} else {
				if vers[string(raw)] == nil {
					vers[string(raw)] = map[uint64]bool{}
				}
				vers[string(raw)][rev] = true
			}
		}
		for _, k := range c17Keys {
			v, ok := m.At(k, 0)
			if !ok {
				continue
			}
			ix, hasIdx := idx[k]
			hasNewest := vers[k][v.Rev]
			if !hasIdx && hasNewest && w.Sc.Rates.DelErr > 0 {
				// injected delete errors: the pass removed the index and could not remove a version. The
				// statement's "together" has no fault in it; under faults the removal may stop half-way in
				// this direction only (the key reads as absent and must be creatable again: epilogue),
				// never the other way round (index left without its newest version: unreadable and uncreatable)
				out.probe("expiry-interrupted-by-delete-error")
				continue
			}
			if hasIdx != hasNewest && !(v.Tomb) {
				upd := ""
				if len(m.Keys[k]) > 1 {
					upd = " after-update"
				}
				out.violate(P, "partial-expiry", "partial-expiry"+upd+engineClass, "key %s: index record present=%v (-> %d), newest version %d present=%v, other versions %v: removed only in part", k, hasIdx, ix, v.Rev, hasNewest, vers[k])
			}
			if hasIdx && !hasNewest && v.Tomb {
				// a deleted key whose tombstone was compacted but index not yet: compaction's business (C07)
				continue
			}
		}
	}
	// no watch event for a removal: the delivered events are exactly the client writes
	all := expectedEvents(c)
	checkWatchers(c, P, all, !w.Stuck)
	span := int64(0)
	for _, r := range w.Recs {
		if r.RetMs > span {
			span = r.RetMs
		}
	}
	if span > c17TTLms {
		out.NonTrivial = true
		out.probe("run-spanned-more-than-the-ttl")
	}
}

func init() {
	register(&Prop{ID: "C17", Gen: genC17, Epilogue: c17Epilogue, Check: checkC17})
}
