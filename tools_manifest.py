#!/usr/bin/env python3
"""Regenerates MANIFEST.json from the table below (kept in one place so it stays valid)."""
import json, subprocess
CLAIMED = {
 "C01": ("exploration", "Seeded deterministic simulation: real backend over real engines under a token scheduler; ground-truth version chain + exact in-flight justification of every failed condition. Exploration because interleavings and inputs are sampled from a PRNG, not enumerated.", "6 (C01)"),
 "C02": ("exploration", "Same simulated runs with reads; uniqueness, real-time order, per-key monotonicity and header>=data are checked over the recorded history and the ground truth.", "6 (C02)"),
 "C04": ("exploration", "Committed revision sampled after every scheduler step against in-flight storage transactions (safety) plus a bounded-liveness probe after faults stop; hostile expected revisions and injected engine errors.", "6 (C04)"),
 "C03": ("exploration", "Seeded histories (sequential and concurrent) with every read compared byte for byte with an MVCC reference model rebuilt from the ground truth of applied batches; re-reads after further writes and compaction.", "6 (C03)"),
 "C05": ("exploration", "Watch registration raced with writes under seeded schedules at the hook points the property names; delivered sequence must be an exact prefix of (at quiescence: equal to) the expected event sequence derived from the ground truth; long shallow runs overflow a subscriber buffer.", "6 (C05)"),
 "C06": ("exploration", "Observable-only cross-check under seeded schedules: list(R) folded with delivered events up to R' must equal list(R'), with concurrent writers and compactions.", "6 (C06)"),
 "C07": ("fault_enumeration", "For every sampled history and compaction revision all single delete-failure positions (k<=8) x 4 failure kinds and all compactor crash positions (k<=8) are executed, plus sampled multi-fault and racing-writer schedules; reads at every revision >= R are compared with an MVCC model that ignores compaction; ground truth is scanned for forbidden deletes.", "6 (C07)"),
 "C08": ("exploration", "Seeded sequences and races of compaction requests and range reads; monotone floor model over accepted compactions, stored record followed through the ground truth, reads near the floor compared with the MVCC model.", "6 (C08)"),
 "C09": ("fault_enumeration", "For every sampled script all placements of one unknown-outcome fault (k<=8, applied / not applied), the same combined with each fault kind on the repair write, and fault pairs are executed on the simulated clock through the retry interval; response classification, progress, compaction cap and list+watch convergence are checked.", "6 (C09)"),
 "C11": ("exploration", "Raw engine clients interleaved by the seeded scheduler on every engine and wrapper, with batches and iterators kept open across other clients' commits; a sorted-map reference model runs in lock-step and the final scan must equal it.", "6 (C11)"),
 "C12": ("exploration", "Seeded sequential request histories replayed in lock-step on four engine stacks under the simulated clock; normalised transcripts (success flags, error-vs-response, values, revision ranks, range contents, events) compared. No schedule dimension: seeded history generation against a differential oracle.", "6 (C12)"),
 "C13": ("exploration", "Seeded histories read through List/Count/ListByStream/GetPartitions under partition borders injected at the storage seam (index records, mid-version, synthetic keys; any order) and compared with the unpartitioned MVCC model; stream shape and header revisions checked.", "6 (C13)"),
 "C14": ("exploration", "Competing candidates drive the real resourcelock.Interface over a shared engine under seeded schedules; the lock key's ground truth is checked as a compare-and-swap register and the recorded history is checked with porcupine against a CAS-register model.", "6 (C14)"),
 "C15": ("exploration", "Real client-go elector on the simulated clock; old leader crashes after an arbitrary request, a new leader is elected after lease expiry and probed; every revision it hands out is compared with the maximum stored revision from the ground truth.", "6 (C15)"),
 "C16": ("exploration", "Seeded request histories through the real etcd handler objects of a real NewServer node (leader via the real elector) compared in lock-step with an executable etcd-semantics reference model; unsupported shapes from a grammar must be rejected without mutation or executed exactly as the reference prescribes. Sequential: the deciding step is seeded history generation against a reference model.", "6 (C16)"),
 "C18": ("exploration", "Two real server objects over one engine with a simulated peer transport; full request-type x role x proxy x peer-state matrix per run class, plus concurrent follower reads against a writing leader under seeded schedules and delayed responses; freshness judged against the leader's committed revision sampled at the read's invoke step, content against the MVCC model.", "6 (C18)"),
 "C20": ("exploration", "Seeded hostile requests through both handler sets of a real NewServer leader with the real Prometheus client, racing clients, failing streams; a liveness probe after requests turns 'wedged' into an observable; panics recovered on request goroutines, worker deaths with repository frames re-executed in a fresh process; recording wrapper checks metric name -> kind/label-set consistency independent of order.", "6 (C20)"),
 "C17": ("exploration", "Seeded histories over event keys, look-alikes and ordinary keys on the simulated clock (pauses around the TTL, compaction marks), on native-TTL engines (memkv timers, Badger entry TTL on the fake clock) and TTL-less engines (seam freedom, TiKV mock); expiry model over observed reads, engine dump for whole-key removal, re-creation probe, watch stream compared with client writes only.", "6 (C17)"),
 "C19": ("exploration", "The simulator's seeded workloads run free (real threads, no bubble, hooks off) in a -race build with unknown-outcome injection so that the retry loop runs; every data-race report with repository frames is a violation. Weaker than the other checks: the workload replays from its seed, the interleaving does not.", "6 (C19)"),
}
TECH = "deterministic simulation with fault injection (seeded token scheduler over testing/synctest, simkv fault seam, reference-model oracles)"
NOTE = "Trusted: Go 1.26.8 testing/synctest quiescence, the simulator's decoder of the key layout, the hook lines (add-only, tag verif). Sampled search: clean run = evidence, not proof."
PENDING = {}
def main():
    props=[json.loads(l) for l in open('/verif/properties.jsonl')]
    commits=subprocess.run(['git','-C','/repo','log','--format=%h %s'],capture_output=True,text=True).stdout.splitlines()
    hooks=[c.split()[0] for c in commits if c.split(' ',1)[1].startswith('verif hooks')]
    checks=[]; na=[]
    for p in props:
        i=p['id']
        if i in CLAIMED:
            lvl,text,ref=CLAIMED[i]
            checks.append({"property_id":i,"quick_cmd":f"bin/check {i} quick","thorough_cmd":f"bin/check {i} thorough",
              "evidence_file":f"/verif/evidence/{i}.json","replay_cmd_template":f"bin/check {i} --replay {{path}}",
              "engine":"sim","level_claimed":{"category":lvl,"text":text,"design_ref":ref},"level_note":NOTE,"technique":TECH})
        else:
            na.append({"property_id":i,"reason":NA.get(i,"check not built yet in this session (see DESIGN.md section 6 for the plan)")})
    m={"version":1,
       "setup_cmd":"bin/setup",
       "hooks":{"guard":"verif","enable":"go1.26.8 test -c -tags verif (harness module /verif/sim with replace github.com/kubewharf/kubebrain => /repo)",
                "baseline_off_cmd":"cd /repo && GOFLAGS=-mod=mod go test -vet=off -count=1 -timeout 25m ./...",
                "source_commits":hooks,"add_only":True},
       "engines":[{"name":"sim","path":"/verif/sim","serves_properties":sorted(CLAIMED),"kind_free_text":"deterministic simulator: token scheduler + synctest bubble + simkv fault seam + reference models; driver in sim/cmd/driver"}],
       "checks":checks,"not_applicable":na,
       "notes":"Exit codes: 0 held, 1 VIOLATION, 2 infrastructure trouble (never a verdict). Known findings: /verif/known_findings.json."}
    json.dump(m,open('/verif/MANIFEST.json','w'),indent=1)
NA = {"C10":"pure function of its input (no schedule, clock, fault, interleaving or history): not a simulation target; see DESIGN.md section 7"}
if __name__=='__main__': main()
