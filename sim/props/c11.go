package props

import (
	"bytes"
	"context"
	"encoding/hex"
	"errors"
	"fmt"
	"io"
	"os"
	"sort"
	"strings"
	"testing"

	"github.com/kubewharf/kubebrain/pkg/storage"
	kvmetrics "github.com/kubewharf/kubebrain/pkg/storage/metrics"

	"verif/sim/rt"
	"verif/sim/world"
)

// C11 — every storage adapter honours the engine contract. Clients here are raw
// engine users; the oracle is a sorted map run in lock-step.

var c11Keys = []string{"k1", "k2", "k2a", "k3", "k30", "k4", "m", "m/x"}
var c11Bounds = []string{"a", "k", "k1", "k2", "k2a", "k2b", "k3", "k30", "k4", "k5", "m", "m/x", "n", "z"}

// Scenario encoding: Op.K in {batch, get, del, iter, next, delcur, close};
// batch operations are in Op.Val as "put:k=v;pine:k=v;cas:k=new/old;del:k;delcur:<h>", Op.W = iterator handle,
// Op.Limit = iterator limit or (batch) 1 = yield between begin and commit.

func genC11(r *rt.Rand, tier string, idx int) *world.Scenario {
	sc := &world.Scenario{Seed: r.Uint64(), Prefix: "raw"}
	switch idx % 6 {
	case 0, 1, 2:
		sc.Engine = "memkv"
	case 3, 4:
		sc.Engine = "badger"
	default:
		sc.Engine = "tikv"
	}
	sc.MetricsKV = r.Chance(0.35)
	sc.Class = "raw-engine-ops"
	keyPool := c11Keys
	if idx%3 == 2 {
		// several hundred keys: an iteration then spans more than one fetch of the engine client
		sc.Class = "raw-engine-ops-over-300-keys"
		sc.Extra = map[string]int64{"bulk": int64(280 + r.Intn(60))}
		keyPool = append(append([]string{}, c11Keys...), "b000", "b100", "b270", "b279")
	}
	if idx%30 == 11 {
		// a fault below the adapter: one scan request of the TiKV client to the cluster is answered without a
		// body while an iteration over several hundred keys (several requests) is under way
		sc.Engine, sc.Class = "tikv", "tikv-scan-request-fault"
		sc.Extra = map[string]int64{"bulk": int64(280 + r.Intn(60)), "tikv_scan_fault": int64(1 + r.Intn(5))}
		keyPool = append(append([]string{}, c11Keys...), "b000", "b100", "b270", "b279")
	}
	if idx%30 == 23 {
		// a fault below the adapter: one point read of the TiKV client (the existence or value check behind a
		// condition) is answered with a key error
		sc.Engine, sc.Class = "tikv", "tikv-get-request-fault"
		sc.Extra = map[string]int64{"tikv_get_fault": int64(1 + r.Intn(10))}
	}
	if idx%30 == 17 {
		// TiKV acknowledges a transaction once its primary key is committed and commits the other keys in the
		// background: here those later commit requests never arrive, so the keys stay locked until a reader
		// resolves them - what is read afterwards must still be the whole batch (two regions: the keys of one
		// batch live on different stores)
		sc.Engine, sc.Class = "tikv", "tikv-secondary-commits-held"
		sc.Extra = map[string]int64{"tikv_hold_secondary_commits": 1, "tikv_regions": 1}
		sc.Parts = []string{hex.EncodeToString([]byte("k3"))}
	}
	if idx%50 == 9 {
		if sc.Extra == nil {
			sc.Extra = map[string]int64{}
		}
		sc.Class += "+empty-value-batch"
		sc.Extra["empty_value_batch"], sc.Extra["empty_value_at"], sc.Extra["empty_value_nil"] = int64(4+r.Intn(10)), int64(r.Intn(20)), int64(r.Intn(2))
	}
	if idx%300 == 77 || idx%300 == 177 {
		// a batch larger than the engine takes in one transaction (Badger: ~105 000 entries or ~10 MB), ending
		// in a condition that fails: all of it or nothing, whatever the adapter does about the size
		sc.Engine = map[int]string{77: "badger", 177: "memkv"}[idx%300]
		sc.Class = "oversized-batch"
		sc.Extra = map[string]int64{"huge": int64(105000 + r.Intn(20000))}
		if r.Chance(0.4) {
			sc.Extra["huge"], sc.Extra["huge_keylen"] = int64(180+r.Intn(60)), 60000
		}
	}
	nc := 1 + r.Intn(3)
	vn := 0
	val := func() string { vn++; return fmt.Sprintf("v%d", vn) }
	// guards: some compare-and-swaps rewrite the value they expect. A value then no longer identifies one
	// version, and "value-equal or version-equal" compare-and-delete through an iterator may legitimately
	// differ between engines: such runs issue no compare-and-delete.
	guards := idx%7 == 3
	if guards {
		// few keys and at least two clients, so that a guarded key is often rewritten while a batch is open
		sc.Class += "+guard-cas"
		keyPool = keyPool[:3]
		if nc < 2 {
			nc = 2
		}
	}
	// values a client believes are current (for CAS expectations that sometimes hold)
	last := map[string]string{}
	for c := 0; c < nc; c++ {
		var cl world.Client
		open := []int{}
		hn := c * 100
		n := 8 + r.Intn(30)
		if sc.Engine != "memkv" {
			n = 6 + r.Intn(16)
		}
		for i := 0; i < n; i++ {
			k := keyPool[r.Intn(len(keyPool))]
			switch r.Weighted(34, 10, 8, 16, 16, 6, 10) {
			case 0: // batch
				var parts []string
				for j := 0; j < 1+r.Intn(4); j++ {
					bk := keyPool[r.Intn(len(keyPool))]
					switch r.Weighted(25, 25, 30, 10, 10) {
					case 0:
						v := val()
						parts = append(parts, "put:"+bk+"="+v)
						last[bk] = v
					case 1:
						parts = append(parts, "pine:"+bk+"="+val())
					case 2:
						old := last[bk]
						if old == "" || r.Chance(0.3) {
							old = fmt.Sprintf("v%d", 1+r.Intn(vn+1))
						}
						if r.Chance(0.05) {
							old = "" // an empty expectation: matches nothing that is stored, and never a missing key
						}
						v := val()
						if guards && old != "" && r.Chance(0.6) {
							v = old // a guard: the compare-and-swap rewrites the value it expects
						}
						parts = append(parts, "cas:"+bk+"="+v+"/"+old)
						last[bk] = v
					case 3:
						parts = append(parts, "del:"+bk)
					case 4:
						if len(open) > 0 && !guards {
							parts = append(parts, fmt.Sprintf("delcur:%d", open[r.Intn(len(open))]))
						} else {
							parts = append(parts, "put:"+bk+"="+val())
						}
					}
				}
				split := int64(0)
				if r.Chance(0.5) || guards {
					split = 1
				}
				cl.Ops = append(cl.Ops, world.Op{K: "batch", Val: strings.Join(parts, ";"), Limit: split})
			case 1:
				cl.Ops = append(cl.Ops, world.Op{K: "get", Key: k})
			case 2:
				cl.Ops = append(cl.Ops, world.Op{K: "del", Key: k})
			case 3: // open iterator
				a, b := c11Bounds[r.Intn(len(c11Bounds))], c11Bounds[r.Intn(len(c11Bounds))]
				if a == b {
					continue
				}
				hn++
				lim := int64(0)
				if r.Chance(0.35) {
					lim = int64(1 + r.Intn(4))
				}
				cl.Ops = append(cl.Ops, world.Op{K: "iter", Key: a, End: b, W: hn, Limit: lim})
				open = append(open, hn)
			case 4:
				if len(open) > 0 {
					cl.Ops = append(cl.Ops, world.Op{K: "next", W: open[r.Intn(len(open))], Limit: int64(1 + r.Intn(4))})
				}
			case 5:
				if len(open) > 0 && !guards {
					cl.Ops = append(cl.Ops, world.Op{K: "delcur", W: open[r.Intn(len(open))]})
				}
			case 6:
				if len(open) > 0 {
					j := r.Intn(len(open))
					cl.Ops = append(cl.Ops, world.Op{K: "drain", W: open[j]})
					open = append(open[:j], open[j+1:]...)
				}
			}
		}
		for _, h := range open {
			cl.Ops = append(cl.Ops, world.Op{K: "drain", W: h})
		}
		sc.Clients = append(sc.Clients, cl)
	}
	return sc
}

type c11Iter struct {
	it     storage.Iter
	snap   []string          // model keys of the interval in direction order, at creation
	vals   map[string]string // model snapshot values
	pos    int               // how many elements have been yielded
	limit  int
	cur    string
	valid  bool
	done   bool
	desc   string
	atEOF  bool
	curVal string
	// the injected broken scan request has surfaced in this iteration
	faultSeen bool
}

func c11Custom(t *testing.T, sc *world.Scenario, out *Outcome) {
	const P = "C11"
	s := rt.New(sc.Seed)
	if os.Getenv("VERIF_TRACE") != "" {
		s.KeepTrace = true
	}
	w := &world.World{Sc: sc}
	inner, lazy, err := w.NewEngineFor(sc.Engine)
	if err != nil {
		out.Infra = err.Error()
		return
	}
	if sc.Extra["tikv_hold_secondary_commits"] == 0 {
		defer w.CloseEngines()
	} // (else: the client's background lock resolvers may still be at work; the mock cluster is left to the collector)
	var st storage.KvStorage = inner
	if sc.MetricsKV {
		st = kvmetrics.NewKvStorage(inner, world.NewRecMetrics(nil))
	}
	stack := sc.Engine
	if sc.MetricsKV {
		stack += "+metrics"
	}
	model := map[string]string{}
	modCount := map[string]int{}
	bump := func(before, after map[string]string) {
		for k, v := range after {
			if b, ok := before[k]; !ok || b != v {
				modCount[k]++
			}
		}
		for k := range before {
			if _, ok := after[k]; !ok {
				modCount[k]++
			}
		}
	}
	type attempt struct {
		client     int
		begin, end uint64
		keys       map[string]bool
	}
	var attempts []attempt
	ctx := context.Background()
	if n := int(sc.Extra["bulk"]); n > 0 {
		bw := st.BeginBatchWrite()
		for i := 0; i < n; i++ {
			k, v := fmt.Sprintf("b%03d", i), fmt.Sprintf("bulk%d", i)
			bw.Put([]byte(k), []byte(v), 0)
			model[k] = v
		}
		if err := bw.Commit(ctx); err != nil {
			out.Infra = "bulk load: " + err.Error()
			return
		}
	}
	if sc.Extra["empty_value_batch"] > 0 {
		// a batch in which one write carries an empty value: an engine may store it or refuse the batch with an
		// error of its own - either way all of the batch or nothing
		pre := st.BeginBatchWrite()
		pre.Put([]byte("zy-gone"), []byte("g"), 0)
		if err := pre.Commit(ctx); err != nil {
			out.Infra = "empty-value batch, preload: " + err.Error()
			return
		}
		n := int(sc.Extra["empty_value_batch"])
		at := int(sc.Extra["empty_value_at"]) % (n + 1)
		bw := st.BeginBatchWrite()
		for i := 0; i <= n; i++ {
			switch {
			case i == at && sc.Extra["empty_value_nil"] != 0:
				bw.Put([]byte("zy-empty"), nil, 0)
			case i == at:
				bw.Put([]byte("zy-empty"), []byte{}, 0)
			default:
				bw.Put([]byte(fmt.Sprintf("zy-%02d", i)), []byte("x"), 0)
			}
		}
		bw.Del([]byte("zy-gone"))
		err := bw.Commit(ctx)
		visible := 0
		for i := 0; i <= n; i++ {
			if i != at {
				if _, gerr := st.Get(ctx, []byte(fmt.Sprintf("zy-%02d", i))); gerr == nil {
					visible++
				}
			}
		}
		_, goneErr := st.Get(ctx, []byte("zy-gone"))
		out.probe("batch-with-an-empty-value")
		switch {
		case err != nil && (visible > 0 || goneErr != nil):
			out.violate(P, "batch-applied-in-part", "batch-applied-in-part engine="+stack+" empty-value", "[%s] a batch of %d writes, one of them with an empty value, and a delete failed (%v), yet %d of its writes are readable and the key it deletes reads %v", stack, n, err, visible, goneErr)
		case err == nil && (visible != n || goneErr == nil):
			out.violate(P, "batch-applied-in-part", "batch-applied-in-part engine="+stack+" empty-value", "[%s] a batch of %d writes, one of them with an empty value, and a delete committed, yet only %d of its writes are readable (deleted key: %v)", stack, n, visible, goneErr)
		}
		// leave the store as the model has it
		clean := st.BeginBatchWrite()
		for i := 0; i <= n; i++ {
			clean.Del([]byte(fmt.Sprintf("zy-%02d", i)))
		}
		clean.Del([]byte("zy-empty"))
		clean.Del([]byte("zy-gone"))
		if cerr := clean.Commit(ctx); cerr != nil {
			out.Infra = "empty-value batch, cleanup: " + cerr.Error()
			return
		}
	}
	if n := int(sc.Extra["huge"]); n > 0 {
		pre := st.BeginBatchWrite()
		pre.Put([]byte("zz-exists"), []byte("e"), 0)
		if err := pre.Commit(ctx); err != nil {
			out.Infra = "oversized batch, preload: " + err.Error()
			return
		}
		model["zz-exists"] = "e"
		pad := ""
		if l := int(sc.Extra["huge_keylen"]); l > 0 {
			pad = strings.Repeat("k", l)
		}
		hk := func(i int) []byte { return []byte(fmt.Sprintf("h%06d%s", i, pad)) }
		bw := st.BeginBatchWrite()
		for i := 0; i < n; i++ {
			bw.Put(hk(i), []byte("x"), 0)
		}
		bw.PutIfNotExist([]byte("zz-exists"), []byte("never"), 0)
		err := bw.Commit(ctx)
		visible := 0
		for i := 0; i < n; i += 1 + n/400 {
			if _, gerr := st.Get(ctx, hk(i)); gerr == nil {
				visible++
			}
		}
		if _, gerr := st.Get(ctx, hk(n-1)); gerr == nil {
			visible++
		}
		out.probe("oversized-batch-committed")
		switch {
		case err == nil:
			out.violate(P, "commit-despite-failed-condition", "commit-despite-failed-condition engine="+stack+" oversized-batch", "[%s] a batch of %d writes ending in a put-if-absent of an existing key committed without an error", stack, n)
		case visible > 0:
			out.violate(P, "batch-applied-in-part", "batch-applied-in-part engine="+stack+" oversized-batch", "[%s] a batch of %d writes ending in a put-if-absent of an existing key failed (%v), yet %d of the sampled writes are readable", stack, n, err, visible)
		}
		if v, gerr := st.Get(ctx, []byte("zz-exists")); gerr != nil || string(v) != "e" {
			out.violate(P, "batch-applied-in-part", "batch-applied-in-part engine="+stack+" oversized-batch", "[%s] the existing key reads %q, %v after the failed batch", stack, v, gerr)
		}
	}
	w.TiKVScanFaultArmed = true // (only has an effect in the tikv-scan-request-fault class)
	done := 0
	overlapped := false
	inBatch := 0
	viol := func(rule, format string, args ...interface{}) {
		out.violate(P, rule, rule+" engine="+stack, "["+stack+"] "+format, args...)
	}
	condHolds := func(m map[string]string, kind, k, old string) bool {
		cur, ok := m[k]
		switch kind {
		case "pine":
			return !ok
		case "cas":
			return ok && cur == old
		}
		return true
	}
	for ci := range sc.Clients {
		ci := ci
		iters := map[int]*c11Iter{}
		s.Go(fmt.Sprintf("raw%d", ci), -1, func() {
			for _, op := range sc.Clients[ci].Ops {
				s.Yield("raw.op")
				switch op.K {
				case "get":
					gf := w.TiKVGetFaultFired
					v, err := st.Get(ctx, []byte(op.Key))
					s.Note("get c%d %s -> %q %v", ci, op.Key, v, err)
					mv, ok := model[op.Key]
					if w.TiKVGetFaultFired > gf && err != nil && !errors.Is(err, storage.ErrKeyNotFound) {
						out.probe("read-failed-on-broken-get-request")
						continue
					}
					switch {
					case !ok && !errors.Is(err, storage.ErrKeyNotFound):
						viol("get-missing", "Get(%s) of a missing key returned (%q, %v), want ErrKeyNotFound", op.Key, v, err)
					case ok && (err != nil || string(v) != mv):
						viol("get-value", "Get(%s) returned (%q, %v), model %q", op.Key, v, err, mv)
					}
				case "del":
					if err := st.Del(ctx, []byte(op.Key)); err != nil {
						viol("del-error", "Del(%s) failed: %v", op.Key, err)
					} else {
						modCount[op.Key]++ // deleting a missing key is still a write for an optimistic engine
						delete(model, op.Key)
					}
				case "batch":
					type bop struct {
						kind, k, v, old string
						h               int
					}
					var bops []bop
					for _, p := range strings.Split(op.Val, ";") {
						kv := strings.SplitN(p, ":", 2)
						b := bop{kind: kv[0]}
						switch b.kind {
						case "put", "pine":
							x := strings.SplitN(kv[1], "=", 2)
							b.k, b.v = x[0], x[1]
						case "cas":
							x := strings.SplitN(kv[1], "=", 2)
							y := strings.SplitN(x[1], "/", 2)
							b.k, b.v, b.old = x[0], y[0], y[1]
						case "del":
							b.k = kv[1]
						case "delcur":
							fmt.Sscanf(kv[1], "%d", &b.h)
						}
						bops = append(bops, b)
					}
					// resolve delcur targets first; an iterator that is not positioned makes the op a no-op put
					var use []bop
					for _, b := range bops {
						if b.kind == "delcur" {
							it := iters[b.h]
							if it == nil || !it.valid || it.done {
								continue
							}
							b.k, b.old = it.cur, it.curVal
						}
						use = append(use, b)
					}
					if len(use) == 0 {
						continue
					}
					begin := map[string]string{}
					for k, v := range model {
						begin[k] = v
					}
					beginCount := map[string]int{}
					for _, b := range use {
						beginCount[b.k] = modCount[b.k]
					}
					beginStep := s.StepNo()
					hasEmpty := false
					for _, b := range use {
						if (b.kind == "put" || b.kind == "pine" || b.kind == "cas") && b.v == "" {
							hasEmpty = true
						}
					}
					bw := st.BeginBatchWrite()
					for _, b := range use {
						switch b.kind {
						case "put":
							bw.Put([]byte(b.k), []byte(b.v), 0)
						case "pine":
							bw.PutIfNotExist([]byte(b.k), []byte(b.v), 0)
						case "cas":
							bw.CAS([]byte(b.k), []byte(b.v), []byte(b.old), 0)
						case "del":
							bw.Del([]byte(b.k))
						case "delcur":
							bw.DelCurrent(iters[b.h].it)
						}
					}
					split := op.Limit == 1 && !lazy
					if split {
						inBatch++
						s.Yield("raw.batch.commit")
						inBatch--
						out.probe("batch-open-across-steps")
					}
					gfBefore := w.TiKVGetFaultFired
					err := bw.Commit(ctx)
					s.Note("batch c%d {%s} -> %v %#v", ci, op.Val, err, err)
					if w.TiKVGetFaultFired > gfBefore && err != nil && !errors.Is(err, storage.ErrCASFailed) {
						// the read behind one of the batch's conditions failed below the adapter: the batch can not know
						// whether the condition holds and must fail as a whole, with an error (nothing applied)
						out.probe("batch-failed-on-broken-get-request")
						attempts = append(attempts, attempt{client: ci, begin: beginStep, end: s.StepNo(), keys: map[string]bool{}})
						continue
					}
					// evaluate the conditions sequentially inside the batch (later ops see earlier ones), at begin and at commit state
					eval := func(base map[string]string) (bool, map[string]string) {
						m := map[string]string{}
						for k, v := range base {
							m[k] = v
						}
						for _, b := range use {
							switch b.kind {
							case "pine", "cas":
								if !condHolds(m, b.kind, b.k, b.old) {
									return false, nil
								}
								m[b.k] = b.v
							case "put":
								m[b.k] = b.v
							case "del":
								delete(m, b.k)
							case "delcur":
								if cur, ok := m[b.k]; !ok || cur != b.old {
									return false, nil
								}
								delete(m, b.k)
							}
						}
						return true, m
					}
					okBegin, _ := eval(begin)
					okNow, after := eval(model)
					// Conditions are judged in batch order, each seeing the earlier operations of its batch (all
					// three engines read their own pending writes). One shape is left out: a compare-and-delete
					// through an iterator of a key that the same batch has written before. The iterator refers
					// to a version the batch itself superseded; the contract allows "value-equal or version-
					// equal", the engines differ (Badger compares the version of its own pending write, which
					// coincides with the iterated one exactly when that was the newest commit), and the backend
					// never issues such a batch. It is not judged for its conditions; it must still apply
					// entirely or not at all, which the following reads and the final scan verify.
					selfConflict := false
					wroteKey := map[string]bool{}
					for _, b := range use {
						if b.kind == "delcur" && wroteKey[b.k] {
							selfConflict = true
						}
						if b.kind == "put" || b.kind == "pine" || b.kind == "cas" {
							wroteKey[b.k] = true
						}
					}
					if selfConflict {
						out.probe("compare-and-delete-of-own-pending-write(not judged)")
					}
					// a key of the batch was modified by someone else while the batch was open:
					// an optimistic engine may abort it (reported as a failed condition or as an error)
					touched := false
					for _, b := range use {
						if modCount[b.k] != beginCount[b.k] {
							touched = true
						}
					}
					// ... or by a transaction that was open at the same time and touched one of its keys,
					// even if that one was aborted (TiKV leaves a rollback record that conflicts with older transactions)
					mine := map[string]bool{}
					for _, b := range use {
						mine[b.k] = true
					}
					for _, a := range attempts {
						if a.client != ci && a.end >= beginStep {
							for k := range a.keys {
								if mine[k] {
									touched = true
								}
							}
						}
					}
					attempts = append(attempts, attempt{client: ci, begin: beginStep, end: s.StepNo(), keys: mine})
					if touched {
						out.probe("batch-raced-with-write-on-its-keys")
					}
					desc := op.Val
					switch {
					case err == nil:
						if !okNow && !selfConflict {
							viol("batch-applied-despite-failed-condition", "batch {%s} committed although a condition does not hold (state %v)", desc, model)
						}
						if !okNow {
							// follow the engine: it applied every effect in order
							forced := map[string]string{}
							for k, v := range model {
								forced[k] = v
							}
							for _, b := range use {
								switch b.kind {
								case "put", "pine", "cas":
									forced[b.k] = b.v
								case "del", "delcur":
									delete(forced, b.k)
								}
							}
							bump(model, forced)
							for _, b := range use {
								modCount[b.k]++
							}
							model = forced
						} else {
							bump(model, after)
							for _, b := range use {
								modCount[b.k]++ // every written key counts, even when the value did not change
							}
							model = after
						}
						out.probe("batch-applied")
					case errors.Is(err, storage.ErrCASFailed):
						if okNow && okBegin && !touched && !selfConflict {
							viol("batch-refused-although-conditions-hold", "batch {%s} reported a failed condition although every condition holds (state %v)", desc, model)
						}
						out.probe("batch-condition-failed")
					default:
						if selfConflict {
							// not judged
						} else if hasEmpty {
							// an engine that cannot store an empty value refuses the batch with an error of its own, whatever
							// its conditions: nothing of it may be visible (the reads that follow and the final scan compare
							// the store with the unchanged model)
							out.probe("batch-with-an-empty-value-refused")
						} else if !okNow || !okBegin {
							miss := ""
							for _, b := range use {
								if b.kind == "cas" {
									if _, ok := model[b.k]; !ok {
										miss = " cas-on-missing-key"
									}
								}
							}
							viol("other-error-instead-of-failed-condition", "batch {%s} whose condition does not hold returned %q instead of an error matching ErrCASFailed%s", desc, err.Error(), miss)
							out.Violations[len(out.Violations)-1].Sig += miss
						} else if !touched {
							viol("batch-error", "batch {%s} whose conditions hold failed with %q", desc, err.Error())
						}
					}
				case "iter":
					firedBefore := w.TiKVScanFaultFired
					it, err := st.Iter(ctx, []byte(op.Key), []byte(op.End), 0, uint64(op.Limit))
					if err != nil {
						if w.TiKVScanFaultFired > firedBefore {
							out.probe("iteration-failed-on-broken-scan-request")
							continue
						}
						viol("iter-error", "Iter(%s,%s) failed: %v", op.Key, op.End, err)
						continue
					}
					ci := &c11Iter{it: it, limit: int(op.Limit), vals: map[string]string{}, desc: fmt.Sprintf("Iter(%s,%s,limit=%d)", op.Key, op.End, op.Limit)}
					var ks []string
					for k, v := range model {
						ci.vals[k] = v
						if op.Key < op.End && k >= op.Key && k < op.End {
							ks = append(ks, k)
						}
						if op.Key > op.End && k <= op.Key && k > op.End {
							ks = append(ks, k)
						}
					}
					sort.Strings(ks)
					if op.Key > op.End {
						for i, j := 0, len(ks)-1; i < j; i, j = i+1, j-1 {
							ks[i], ks[j] = ks[j], ks[i]
						}
						out.probe("backward-iteration")
					}
					ci.snap = ks
					iters[op.W] = ci
					if inBatch > 0 {
						overlapped = true
					}
				case "next", "drain":
					it := iters[op.W]
					if it == nil || it.done {
						continue
					}
					n := int(op.Limit)
					if op.K == "drain" {
						n = 1 << 20
					}
					for i := 0; i < n && !it.atEOF; i++ {
						err := it.it.Next(ctx)
						if err == io.EOF {
							it.atEOF = true
							it.valid = false
							// all of them, or at least the first limit of them
							if it.pos < len(it.snap) && (it.limit == 0 || it.pos < it.limit) {
								viol("iterator-ended-early", "%s ended after %d keys, the interval held %v at its snapshot", it.desc, it.pos, it.snap)
							}
							break
						}
						if err != nil {
							if w.TiKVScanFaultFired > 0 && !it.faultSeen {
								// the broken scan request surfaced as an error of the iteration: what it must do
								it.faultSeen = true
								out.probe("iteration-failed-on-broken-scan-request")
							} else {
								viol("iterator-error", "%s Next failed: %v", it.desc, err)
							}
							it.atEOF = true
							break
						}
						k, v := string(it.it.Key()), string(it.it.Val())
						if it.pos >= len(it.snap) {
							viol("iterator-key-outside-interval", "%s yielded %q after the %d keys of its interval %v", it.desc, k, len(it.snap), it.snap)
							it.atEOF = true
							break
						}
						if k != it.snap[it.pos] {
							rule := "iterator-wrong-key"
							inSnap := false
							for _, x := range it.snap {
								if x == k {
									inSnap = true
								}
							}
							if !inSnap {
								if _, ok := it.vals[k]; ok {
									rule = "iterator-key-outside-interval"
								} else {
									rule = "iterator-not-a-snapshot"
								}
							}
							viol(rule, "%s yielded %q as element %d, expected %q (interval at snapshot: %v)", it.desc, k, it.pos, it.snap[it.pos], it.snap)
							it.atEOF = true
							break
						}
						if v != it.vals[k] {
							viol("iterator-not-a-snapshot", "%s yielded %s=%q, the value at its snapshot was %q", it.desc, k, v, it.vals[k])
						}
						if model[k] != it.vals[k] {
							out.probe("iterator-read-past-concurrent-write")
						}
						it.cur, it.curVal, it.valid = k, v, true
						it.pos++
					}
					if op.K == "drain" {
						it.it.Close()
						it.done = true
					}
				case "delcur":
					it := iters[op.W]
					if it == nil || !it.valid || it.done {
						continue
					}
					gfDel := w.TiKVGetFaultFired
					err := st.DelCurrent(ctx, it.it)
					cur, ok := model[it.cur]
					holds := ok && cur == it.curVal
					if w.TiKVGetFaultFired > gfDel && err != nil && !errors.Is(err, storage.ErrCASFailed) {
						out.probe("batch-failed-on-broken-get-request")
						continue
					}
					switch {
					case err == nil && !holds:
						viol("compare-and-delete-applied-wrongly", "DelCurrent(%s) succeeded although the key is now %q (iterator saw %q)", it.cur, cur, it.curVal)
						delete(model, it.cur)
					case err == nil:
						modCount[it.cur]++
						delete(model, it.cur)
						out.probe("compare-and-delete-applied")
					case errors.Is(err, storage.ErrCASFailed):
						if holds {
							viol("compare-and-delete-refused-wrongly", "DelCurrent(%s) reported a failed condition although the key still is %q", it.cur, cur)
						}
						out.probe("compare-and-delete-refused")
					default:
						viol("other-error-instead-of-failed-condition", "DelCurrent(%s) returned %q", it.cur, err.Error())
					}
				}
			}
			for _, it := range iters {
				if !it.done {
					it.it.Close()
				}
			}
			done++
		})
	}
	s.Settle()
	steps := 0
	for done < len(sc.Clients) && steps < 50000 {
		if !s.Step() {
			break
		}
		steps++
	}
	if done < len(sc.Clients) {
		out.Infra = "raw clients did not finish"
		return
	}
	// final: full scan == model (the harness' own scan is not to be faulted)
	w.TiKVScanFaultArmed = false
	if w.TiKVSecondaryCommitsHeld > 0 {
		out.probe("tikv-secondary-commit-request-held")
	}
	it, err := st.Iter(ctx, []byte{0}, bytes.Repeat([]byte{0xff}, 8), 0, 0)
	if err == nil {
		got := map[string]string{}
		for {
			if err := it.Next(ctx); err != nil {
				break
			}
			got[string(it.Key())] = string(it.Val())
		}
		it.Close()
		if len(got) != len(model) {
			viol("final-scan", "final scan holds %d keys %v, model %d %v", len(got), got, len(model), model)
		} else {
			for k, v := range model {
				if got[k] != v {
					viol("final-scan", "final scan %s=%q, model %q", k, got[k], v)
					break
				}
			}
		}
	}
	out.NonTrivial = out.Probes["batch-applied"] > 0 && out.Probes["batch-condition-failed"] > 0
	if overlapped {
		out.probe("iterator-opened-while-batch-open")
	}
	out.Steps = s.StepNo()
	out.Trace = s.Trace
	out.Hash = s.Hash()
	out.Hazards = s.Hazards
	out.StateHash = rt.HashStrings([]string{fmt.Sprint(len(model))})
}

func init() {
	register(&Prop{ID: "C11", Gen: genC11, Custom: c11Custom})
}
