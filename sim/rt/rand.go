package rt

// Rand is a small self-contained PRNG (splitmix64 seeding, xoshiro256**), so
// that a seed means the same execution whatever Go's math/rand does.
type Rand struct{ s [4]uint64 }

func splitmix(x *uint64) uint64 {
	*x += 0x9e3779b97f4a7c15
	z := *x
	z = (z ^ (z >> 30)) * 0xbf58476d1ce4e5b9
	z = (z ^ (z >> 27)) * 0x94d049bb133111eb
	return z ^ (z >> 31)
}

// Mix derives a sub-seed from a seed and labels.
func Mix(seed uint64, labels ...uint64) uint64 {
	x := seed
	out := splitmix(&x)
	for _, l := range labels {
		x ^= l * 0x9e3779b97f4a7c15
		out ^= splitmix(&x)
	}
	return out
}

// MixStr derives a sub-seed from a seed and a string label.
func MixStr(seed uint64, label string) uint64 {
	h := uint64(1469598103934665603)
	for i := 0; i < len(label); i++ {
		h ^= uint64(label[i])
		h *= 1099511628211
	}
	return Mix(seed, h)
}

func NewRand(seed uint64) *Rand {
	r := &Rand{}
	x := seed
	for i := range r.s {
		r.s[i] = splitmix(&x)
	}
	return r
}

func rotl(x uint64, k uint) uint64 { return (x << k) | (x >> (64 - k)) }

func (r *Rand) Uint64() uint64 {
	s := &r.s
	res := rotl(s[1]*5, 7) * 9
	t := s[1] << 17
	s[2] ^= s[0]
	s[3] ^= s[1]
	s[1] ^= s[2]
	s[0] ^= s[3]
	s[2] ^= t
	s[3] = rotl(s[3], 45)
	return res
}

func (r *Rand) Intn(n int) int {
	if n <= 1 {
		return 0
	}
	return int(r.Uint64() % uint64(n))
}

func (r *Rand) Float64() float64 { return float64(r.Uint64()>>11) / (1 << 53) }

// Chance returns true with probability p.
func (r *Rand) Chance(p float64) bool { return r.Float64() < p }

// Range returns an int in [lo, hi].
func (r *Rand) Range(lo, hi int) int {
	if hi <= lo {
		return lo
	}
	return lo + r.Intn(hi-lo+1)
}

// Pick returns one of the strings.
func (r *Rand) Pick(xs ...string) string { return xs[r.Intn(len(xs))] }

// Weighted picks an index with the given weights.
func (r *Rand) Weighted(w ...int) int {
	tot := 0
	for _, x := range w {
		tot += x
	}
	if tot <= 0 {
		return 0
	}
	n := r.Intn(tot)
	for i, x := range w {
		if n < x {
			return i
		}
		n -= x
	}
	return len(w) - 1
}

// Perm returns a permutation of [0,n).
func (r *Rand) Perm(n int) []int {
	p := make([]int, n)
	for i := range p {
		p[i] = i
	}
	for i := n - 1; i > 0; i-- {
		j := r.Intn(i + 1)
		p[i], p[j] = p[j], p[i]
	}
	return p
}
