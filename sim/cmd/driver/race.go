package main

import (
	"context"
	"encoding/json"
	"fmt"
	"os"
	"os/exec"
	"path/filepath"
	"regexp"
	"sort"
	"strings"
	"sync"
	"time"
)

type raceReport struct {
	Sig      string
	Text     string
	Run      int
	Scenario string
	Harness  bool
}

var accessHdr = regexp.MustCompile(`^(Read|Write|Previous read|Previous write|Atomic read|Atomic write|Previous atomic read|Previous atomic write) at 0x`)

// parseRaces extracts the data-race reports from a worker's stderr.
func parseRaces(stderr string) []raceReport {
	var out []raceReport
	run, scen := -1, ""
	lines := strings.Split(stderr, "\n")
	for i := 0; i < len(lines); i++ {
		l := lines[i]
		if strings.HasPrefix(l, "RACE-RUN-BEGIN ") {
			f := strings.SplitN(l, " ", 3)
			fmt.Sscanf(f[1], "%d", &run)
			if len(f) > 2 {
				scen = f[2]
			}
		}
		if !strings.HasPrefix(l, "WARNING: DATA RACE") {
			continue
		}
		j := i + 1
		for j < len(lines) && !strings.HasPrefix(lines[j], "==================") {
			j++
		}
		block := lines[i:j]
		// the two access sections
		var accesses [][]string
		for k := 0; k < len(block); k++ {
			if accessHdr.MatchString(block[k]) {
				var frames []string
				for m := k + 1; m < len(block) && strings.TrimSpace(block[m]) != ""; m++ {
					if strings.HasPrefix(block[m], "  ") && !strings.HasPrefix(block[m], "      ") {
						fn := strings.TrimSpace(block[m])
						if p := strings.LastIndex(fn, "("); p > 0 && strings.HasSuffix(fn, ")") {
							fn = fn[:p]
						}
						frames = append(frames, fn)
					}
				}
				accesses = append(accesses, frames)
			}
		}
		pick := func(frames []string) (string, bool) {
			for _, f := range frames {
				if strings.Contains(f, "github.com/kubewharf/kubebrain/pkg/") && !strings.Contains(f, "/verifhook") {
					return f, true
				}
			}
			for _, f := range frames {
				if strings.Contains(f, "huandu/skiplist") {
					return f, true
				}
			}
			if len(frames) > 0 {
				return frames[0], false
			}
			return "?", false
		}
		var names []string
		inRepo := false
		for _, a := range accesses {
			n, ok := pick(a)
			names = append(names, strings.TrimPrefix(n, "github.com/kubewharf/kubebrain/"))
			inRepo = inRepo || ok
		}
		sort.Strings(names)
		out = append(out, raceReport{Sig: "race " + strings.Join(names, " <-> "), Text: strings.Join(block, "\n"), Run: run, Scenario: scen, Harness: !inRepo})
		i = j
	}
	return out
}

func raceMain(verif, prop, tier string, seed uint64, cfg propCfg, tc tierCfg, replay string) int {
	bin := filepath.Join(filepath.Dir(os.Args[0]), "sim.race.test")
	if _, err := os.Stat(bin); err != nil {
		fmt.Fprintln(os.Stderr, "race binary missing:", err)
		return 2
	}
	start := time.Now()
	deadline := start.Add(time.Duration(tc.BudgetS) * time.Second)
	par := 5
	var mu sync.Mutex
	next, runs := 0, 0
	var ops int64
	var reports []raceReport
	var infra []string
	engines := map[string]int{}
	var samples []interface{}
	replaySc := ""
	if replay != "" {
		b, err := os.ReadFile(replay)
		if err != nil {
			fmt.Fprintln(os.Stderr, err)
			return 2
		}
		var rf struct {
			Scenario json.RawMessage `json:"scenario"`
		}
		json.Unmarshal(b, &rf)
		replaySc = string(rf.Scenario)
		tc.MaxRuns = 12 // the interleaving does not replay: try the same workload a few times
		deadline = start.Add(5 * time.Minute)
	}
	var wg sync.WaitGroup
	for wk := 0; wk < par; wk++ {
		wg.Add(1)
		go func(wk int) {
			defer wg.Done()
			for {
				mu.Lock()
				if time.Now().After(deadline) || next >= tc.MaxRuns || len(infra) > 0 {
					mu.Unlock()
					return
				}
				idx := next
				next++
				mu.Unlock()
				out, err := os.CreateTemp("", "verif-race-*.json")
				if err != nil {
					return
				}
				out.Close()
				// a corrupted in-memory structure can make a workload spin for ever: bound every worker
				wctx, wcancel := context.WithTimeout(context.Background(), 120*time.Second)
				cmd := exec.CommandContext(wctx, bin, "-test.run", "^TestRace$", "-test.timeout", "0")
				cmd.Env = append(os.Environ(), "VERIF_RACE=1", "VERIF_PROP="+prop, fmt.Sprintf("VERIF_SEED=%d", seed), fmt.Sprintf("VERIF_FROM=%d", idx), fmt.Sprintf("VERIF_TO=%d", idx+1),
					"VERIF_OUT="+out.Name(), "GORACE=exitcode=0 halt_on_error=0", "GOMAXPROCS=6")
				if replaySc != "" {
					cmd.Env = append(cmd.Env, "VERIF_REPLAY_SC="+replaySc)
				}
				ob, rerr := cmd.CombinedOutput()
				timedOut := wctx.Err() != nil
				wcancel()
				_ = timedOut
				if rerr != nil && !strings.Contains(string(ob), "RACE-RUN-END") && strings.Contains(string(ob), "WARNING: DATA RACE") {
					// the run never ended (spinning on, or crashed by, a structure the race had corrupted),
					// but the detector had already reported: keep the reports
					ob = append(ob, []byte("\nRACE-RUN-END (worker did not finish: "+rerr.Error()+")\n")...)
				}
				b, _ := os.ReadFile(out.Name())
				os.Remove(out.Name())
				mu.Lock()
				if rerr != nil && !strings.Contains(string(ob), "RACE-RUN-END") {
					s := string(ob)
					if len(s) > 3000 {
						s = s[len(s)-3000:]
					}
					infra = append(infra, fmt.Sprintf("race worker run %d: %v\n%s", idx, rerr, s))
					mu.Unlock()
					return
				}
				var recs []struct {
					Index    int                    `json:"index"`
					Scenario map[string]interface{} `json:"scenario"`
					Ops      int64                  `json:"ops"`
				}
				json.Unmarshal(b, &recs)
				for _, r := range recs {
					runs++
					ops += r.Ops
					if e, ok := r.Scenario["engine"].(string); ok {
						engines[e]++
					}
					if len(samples) < 3 {
						samples = append(samples, r.Scenario)
					}
				}
				reports = append(reports, parseRaces(string(ob))...)
				mu.Unlock()
			}
		}(wk)
	}
	wg.Wait()
	wall := time.Since(start).Seconds()
	if len(infra) > 0 {
		fmt.Fprintf(os.Stderr, "INFRASTRUCTURE ERROR (not a verdict):\n%s\n", strings.Join(infra, "\n"))
		return 2
	}
	if runs == 0 {
		fmt.Fprintln(os.Stderr, "INFRASTRUCTURE ERROR: no race runs executed")
		return 2
	}
	var known knownFile
	if b, err := os.ReadFile(filepath.Join(verif, "known_findings.json")); err == nil {
		json.Unmarshal(b, &known)
	}
	bySig := map[string][]raceReport{}
	for _, r := range reports {
		if r.Harness {
			fmt.Fprintf(os.Stderr, "INFRASTRUCTURE ERROR: data race outside the repository (harness):\n%s\n", r.Text)
			return 2
		}
		bySig[r.Sig] = append(bySig[r.Sig], r)
	}
	var sigs []string
	for s := range bySig {
		sigs = append(sigs, s)
	}
	sort.Strings(sigs)
	exit, nviol := 0, 0
	hits := map[string]int{}
	os.MkdirAll(filepath.Join(outRoot, "replays", prop), 0o755)
	for _, s := range sigs {
		rs := bySig[s]
		isKnown := false
		for _, k := range known.Findings {
			if k.Property == prop && k.Sig == s {
				isKnown = true
				hits[s] = len(rs)
			}
		}
		if isKnown {
			continue
		}
		nviol++
		path := filepath.Join(outRoot, "replays", prop, fmt.Sprintf("%s-seed%d-run%d-%s.json", prop, seed, rs[0].Run, sanitize(s)))
		if len(path) > 200 {
			path = path[:190] + ".json"
		}
		var sc interface{}
		json.Unmarshal([]byte(rs[0].Scenario), &sc)
		rf := map[string]interface{}{"property": prop, "violation": violation{Prop: prop, Rule: "data-race", Sig: s, Detail: rs[0].Text}, "scenario": sc,
			"note": "the workload replays from its seed, the interleaving does not: bin/check C19 --replay <file> runs this workload up to 12 times"}
		b, _ := json.MarshalIndent(rf, "", " ")
		os.WriteFile(path, b, 0o644)
		if replay == "" || true {
			fmt.Printf("VIOLATION property=%s replay=%s\n  %s (%d reports)\n", prop, path, s, len(rs))
		}
		exit = 1
	}
	for _, k := range known.Findings {
		if k.Property == prop {
			if n := hits[k.Sig]; n > 0 {
				fmt.Printf("KNOWN-FINDING: property=%s %s (re-encountered in %d reports)\n", k.Property, k.What, n)
			} else {
				fmt.Printf("KNOWN-FINDING: property=%s %s (not re-encountered in this run)\n", k.Property, k.What)
			}
		}
	}
	if replay != "" {
		if exit == 0 {
			fmt.Println("not reproduced")
		}
		return exit
	}
	if len(samples) == 0 {
		samples = append(samples, "none")
	}
	kf := []string{}
	for _, k := range known.Findings {
		if k.Property == prop {
			kf = append(kf, k.Sig)
		}
	}
	cov := map[string]interface{}{
		"evaluations": runs, "distinct_nontrivial": runs,
		"rule":                     cfg.Rule + " Non-trivial: " + cfg.NonTrivial + " Distinct: every run has its own workload seed; interleavings are decided by the Go runtime and are not counted.",
		"samples":                  samples,
		"client_operations":        ops,
		"runs_per_hour":            float64(runs) / wall * 3600,
		"seeds_per_hour":           float64(runs) / wall * 3600,
		"race_reports":             len(reports),
		"distinct_race_signatures": len(sigs),
		"engines":                  engines,
		"known_findings":           kf,
		"known_finding_hits":       hits,
		"real_components":          cfg.Real,
		"stubbed_components":       cfg.Stub,
		"simulated_seconds":        0,
	}
	ev := map[string]interface{}{"property_id": prop, "tier": tier, "seed": seed, "level": cfg.Level, "coverage": cov, "assumptions": cfg.Assume, "wall_s": wall, "violations": nviol}
	b, _ := json.MarshalIndent(ev, "", " ")
	os.MkdirAll(filepath.Join(outRoot, "evidence"), 0o755)
	os.WriteFile(filepath.Join(outRoot, "evidence", prop+".json"), b, 0o644)
	fmt.Printf("%s %s: %d free-running workloads, %d client operations, %d race reports (%d signatures), %.1fs wall, %d violation(s)\n", prop, tier, runs, ops, len(reports), len(sigs), wall, nviol)
	return exit
}
