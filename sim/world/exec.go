package world

import (
	"context"
	"fmt"
	"strconv"
	"strings"
	"time"

	proto "github.com/kubewharf/kubebrain-client/api/v2rpc"

	"verif/sim/simkv"
)

func (cs *clientState) learn(key string, rev uint64) {
	if rev == 0 {
		return
	}
	ks := cs.known[key]
	if len(ks) == 0 || ks[len(ks)-1] != rev {
		cs.known[key] = append(ks, rev)
	}
	if rev > cs.maxSeen {
		cs.maxSeen = rev
	}
}

func (cs *clientState) seeHdr(h uint64) {
	if h > 0 {
		cs.lastHdr = h
	}
	if h > cs.maxSeen {
		cs.maxSeen = h
	}
}

func (w *World) resolve(cs *clientState, op Op) uint64 {
	switch op.Rev.M {
	case "", "zero":
		return 0
	case "abs":
		return uint64(op.Rev.N)
	case "known":
		ks := cs.known[op.Key]
		if len(ks) == 0 {
			return 0
		}
		return ks[len(ks)-1]
	case "stale":
		ks := cs.known[op.Key]
		n := int(op.Rev.N)
		if n < 1 {
			n = 1
		}
		if len(ks) > n {
			return ks[len(ks)-1-n]
		}
		if len(ks) > 0 && ks[0] > 1 {
			return ks[0] - 1
		}
		return 1
	case "future":
		return cs.maxSeen + uint64(op.Rev.N)
	case "hdr":
		return cs.lastHdr
	case "hdrplus":
		return cs.lastHdr + uint64(op.Rev.N)
	case "listhdrplus":
		return cs.lastListHdr + uint64(op.Rev.N)
	case "hdrminus":
		if cs.lastHdr > uint64(op.Rev.N) {
			return cs.lastHdr - uint64(op.Rev.N)
		}
		return 1
	case "committed":
		c := w.committed(op.Node)
		if op.Rev.N >= 0 {
			return c + uint64(op.Rev.N)
		}
		if c > uint64(-op.Rev.N) {
			return c - uint64(-op.Rev.N)
		}
		return 1
	case "init":
		return w.Sc.InitRev + uint64(op.Rev.N)
	case "tomb":
		return cs.tomb[op.Key]
	}
	return 0
}

// Bytes decodes a scenario string: "hex:<hex>" is binary, anything else is literal.
func Bytes(s string) []byte {
	if strings.HasPrefix(s, "hex:") {
		return unhex(s[4:])
	}
	return []byte(s)
}

func kvOf(k *proto.KeyValue) *KV {
	if k == nil {
		return nil
	}
	return &KV{Key: string(k.Key), Val: string(k.Value), Rev: k.Revision}
}

// exec executes one operation against a node's Backend and records it.
func (w *World) exec(cs *clientState, idx int, op Op) *Rec {
	s := w.S
	task := ""
	if t := s.Current(); t != nil {
		task = t.Name
	}
	// keys written as "hex:.." in a scenario (bytes that JSON cannot carry) are used decoded from here on
	op.Key, op.End = string(Bytes(op.Key)), string(Bytes(op.End))
	r := &Rec{Client: cs.id, Idx: idx, Op: op, Task: task, Node: op.Node}
	switch op.K {
	case "sleep":
		// a client-side pause in simulated time
		until := s.SimTime() + time.Duration(op.Ms)*time.Millisecond
		cs.sleepUntil = until
		s.YieldUntil("client.sleep", func() bool { return s.SimTime() >= until })
		cs.sleepUntil = 0
		return nil
	case "waitcommitted":
		// wait until the node has resolved everything the client has seen
		target := cs.maxSeen
		s.YieldUntil("client.waitcom", func() bool { return w.committed(op.Node) >= target })
		return nil
	case "takeover":
		// node op.Node becomes the serving node: it starts from the revision node op.W had reached
		// (what a restart or fail-over amounts to for a stateless node); the old node stops
		if op.Node < len(w.Nodes) && op.W < len(w.Nodes) {
			rev := w.committed(op.W)
			s.CrashNode(op.W)
			w.Nodes[op.Node].B.SetCurrentRevision(rev)
			s.Note("takeover node %d at %d", op.Node, rev)
		}
		return nil
	case "followersync":
		// what a follower read does to a standby node: its backend adopts the leader's committed revision
		if op.Node < len(w.Nodes) && op.W < len(w.Nodes) && op.Node != op.W {
			rev := w.committed(op.W)
			if op.Limit > 0 && uint64(op.Limit) < rev {
				// an older answer of the leader applied late (two follower reads finishing out of order)
				rev -= uint64(op.Limit)
			}
			if op.Ms > 0 {
				// the leader has answered, the follower has not applied the answer yet (its reader goroutine is
				// between the HTTP response and SetCurrentRevision): the harness applies it later
				w.HeldSyncs = append(w.HeldSyncs, HeldSync{Node: op.Node, Rev: rev})
				s.Note("follower %d holds the leader's answer %d", op.Node, rev)
				return nil
			}
			w.Nodes[op.Node].B.SetCurrentRevision(rev)
			s.Note("follower %d synced to %d", op.Node, rev)
		}
		return nil
	case "armtikvfault":
		// from here on the requests below the TiKV adapter are counted (Extra["tikv_scan_fault"] / ["tikv_get_fault"])
		w.TiKVScanFaultArmed = true
		return nil
	case "crash":
		// the node stops after this request: its goroutines are never resumed, its engine calls never return
		s.CrashNode(op.Node)
		s.Note("crash node %d", op.Node)
		return nil
	case "cancel":
		for _, wa := range w.Watchers {
			if wa.ID == op.W && wa.Client == cs.id && wa.Cancel != nil {
				wa.Canceled = true
				wa.Cancel()
			}
		}
		return nil
	}
	if op.K == "burst" {
		// op.Limit sequential successful writes on one key (create, then guarded updates)
		for i := int64(0); i < op.Limit; i++ {
			key := op.Key
			if op.Ms > 0 {
				// spread over op.Ms distinct keys, so that a lost event is not healed by the next one
				key += strconv.FormatInt(i%op.Ms, 10)
			}
			sub := Op{K: "update", Key: key, Val: op.Val + strconv.FormatInt(i, 10), Rev: Rev{M: "known"}, Node: op.Node}
			r := w.exec(cs, idx*100000+int(i), sub)
			if op.W != 0 && r != nil && r.OK {
				// one broadcast batch per write: wait until the write is committed
				target, n := r.Hdr, op.Node
				w.S.YieldUntil("client.waitcom", func() bool { return w.committed(n) >= target })
			}
		}
		return nil
	}
	if op.Node >= len(w.Nodes) {
		return nil
	}
	n := w.Nodes[op.Node]
	b := n.B
	r.RevAbs = w.resolve(cs, op)
	w.Recs = append(w.Recs, r)
	s.Yield("client.invoke")
	r.Inv = s.StepNo()
	r.InvMs = s.SimTime().Milliseconds()
	r.ComInv = b.GetCurrentRevision()
	ctx := context.Background()
	if op.Timeout > 0 {
		// a deadline on the simulated clock, like the one the etcd-facing handlers put on every write
		var cancelT context.CancelFunc
		ctx, cancelT = context.WithTimeout(ctx, time.Duration(op.Timeout)*time.Millisecond)
		defer cancelT()
	}
	w.inflight[task] = r
	cs.busyNode = op.Node
	finish := func() {
		delete(w.inflight, task)
		cs.busyNode = -1
		r.Ret = s.StepNo()
		r.RetMs = s.SimTime().Milliseconds()
		r.ComRet = b.GetCurrentRevision()
		r.Done = true
		w.doneRecs++
		s.Note("ret c%d i%d %s ok=%v hdr=%d err=%q", cs.id, idx, op.K, r.OK, r.Hdr, clip(r.Err))
	}
	func() {
		// a panic of node code on the request goroutine is recorded as the request's outcome; the
		// oracles still judge everything that happened before (C20 reports the panic itself)
		defer func() {
			if p := recover(); p != nil {
				r.Err = fmt.Sprintf("panic: %v", p)
				w.Panics = append(w.Panics, fmt.Sprintf("%s %s: %v", op.K, op.Key, p))
			}
		}()
		switch op.K {
		case "create":
			resp, err := b.Create(ctx, &proto.CreateRequest{Key: Bytes(op.Key), Value: Bytes(op.Val), Lease: op.Lease})
			if err != nil {
				r.Err = err.Error()
			} else {
				r.OK, r.Hdr = resp.Succeeded, resp.Header.GetRevision()
				cs.seeHdr(r.Hdr)
				if r.OK {
					cs.learn(op.Key, r.Hdr)
				}
			}
		case "update":
			resp, err := b.Update(ctx, &proto.UpdateRequest{Kv: &proto.KeyValue{Key: Bytes(op.Key), Value: Bytes(op.Val), Revision: r.RevAbs}, Lease: op.Lease})
			if err != nil {
				r.Err = err.Error()
			} else {
				r.OK, r.Hdr, r.KV = resp.Succeeded, resp.Header.GetRevision(), kvOf(resp.Kv)
				cs.seeHdr(r.Hdr)
				if r.OK {
					cs.learn(op.Key, r.Hdr)
				} else if r.KV != nil {
					cs.learn(op.Key, r.KV.Rev)
				}
			}
		case "delete":
			resp, err := b.Delete(ctx, &proto.DeleteRequest{Key: Bytes(op.Key), Revision: r.RevAbs})
			if err != nil {
				r.Err = err.Error()
			} else {
				r.OK, r.Hdr, r.KV = resp.Succeeded, resp.Header.GetRevision(), kvOf(resp.Kv)
				cs.seeHdr(r.Hdr)
				if r.OK {
					cs.tomb[op.Key] = r.Hdr
					if r.Hdr > cs.maxSeen {
						cs.maxSeen = r.Hdr
					}
				} else if r.KV != nil {
					cs.learn(op.Key, r.KV.Rev)
				}
			}
		case "get":
			resp, err := b.Get(ctx, &proto.GetRequest{Key: Bytes(op.Key), Revision: r.RevAbs})
			if err != nil {
				r.Err = err.Error()
			} else {
				r.OK, r.Hdr, r.KV = true, resp.Header.GetRevision(), kvOf(resp.Kv)
				cs.seeHdr(r.Hdr)
				if r.KV != nil && r.RevAbs == 0 {
					cs.learn(op.Key, r.KV.Rev)
				}
			}
		case "list":
			resp, err := b.List(ctx, &proto.RangeRequest{Key: Bytes(op.Key), End: Bytes(op.End), Revision: r.RevAbs, Limit: op.Limit})
			if err != nil {
				r.Err = err.Error()
			} else {
				r.OK, r.Hdr, r.More = true, resp.Header.GetRevision(), resp.More
				cs.seeHdr(r.Hdr)
				cs.lastListHdr = r.Hdr
				for _, kv := range resp.Kvs {
					r.KVs = append(r.KVs, *kvOf(kv))
					if r.RevAbs == 0 {
						cs.learn(string(kv.Key), kv.Revision)
					}
				}
			}
		case "count":
			resp, err := b.Count(ctx, &proto.CountRequest{Key: Bytes(op.Key), End: Bytes(op.End)})
			if err != nil {
				r.Err = err.Error()
			} else {
				r.OK, r.Hdr, r.Count = true, resp.Header.GetRevision(), resp.Count
				cs.seeHdr(r.Hdr)
			}
		case "compact":
			resp, err := b.Compact(ctx, r.RevAbs)
			if resp != nil {
				r.Hdr = resp.Header.GetRevision()
			}
			if err != nil {
				r.Err = err.Error()
			} else {
				r.OK = true
			}
		case "parts":
			resp, err := b.GetPartitions(ctx, &proto.ListPartitionRequest{Key: []byte(op.Key), End: []byte(op.End)})
			if err != nil {
				r.Err = err.Error()
			} else {
				r.OK, r.Hdr = true, resp.Header.GetRevision()
				for _, k := range resp.PartitionKeys {
					r.PartKeys = append(r.PartKeys, string(k))
				}
			}
		case "stream":
			// op.Key / op.End are raw keys unless op.API == "internal" (then hex of internal keys)
			var sk, ek []byte
			if op.API == "internal" {
				sk, ek = unhex(op.Key), unhex(op.End)
			} else {
				sk, ek = simkv.EncodeKey([]byte(op.Key), 0), simkv.EncodeKey([]byte(op.End), 0)
			}
			ch, err := b.ListByStream(ctx, sk, ek, r.RevAbs)
			if err != nil {
				r.Err = err.Error()
				break
			}
			r.OK = true
			if op.Consume == "lazy" {
				// a reader slower than the scan: whenever nothing else moves and the stream's buffer is full it
				// takes one batch, so the buffer is full again each time a waiting scan worker gets its batch
				// in - also at the moment the scan ends; then it reads the rest
				for n := 0; n < 5000; n++ {
					s.YieldIdle("client.stream.lazy")
					if len(ch) < cap(ch) {
						break
					}
					if m, ok := <-ch; ok {
						r.Batches = append(r.Batches, batchOf(m))
					}
				}
			}
			r.Batches = append(r.Batches, w.readStream(ch)...)

		case "streamparts":
			// what a client of the streaming API does: ask for the partitions, then stream each one
			resp, err := b.GetPartitions(ctx, &proto.ListPartitionRequest{Key: Bytes(op.Key), End: Bytes(op.End)})
			if err != nil {
				r.Err = err.Error()
				break
			}
			r.OK, r.Hdr = true, resp.Header.GetRevision()
			rev := r.RevAbs
			if rev == 0 {
				rev = r.Hdr
				r.RevAbs = rev
			}
			for _, k := range resp.PartitionKeys {
				r.PartKeys = append(r.PartKeys, string(k))
			}
			for i := 0; i+1 < len(resp.PartitionKeys); i++ {
				ch, err := b.ListByStream(ctx, resp.PartitionKeys[i], resp.PartitionKeys[i+1], rev)
				if err != nil {
					r.Err = err.Error()
					break
				}
				r.Streams = append(r.Streams, w.readStream(ch))
			}
		case "watch":
			wctx, cancel := context.WithCancel(ctx)
			wa := &Watcher{ID: op.W, Client: cs.id, Node: op.Node, Prefix: op.Key, Start: r.RevAbs, Cancel: cancel, Consume: op.Consume}
			wa.RegInv = r.Inv
			wa.ComAtInv = r.ComInv
			ch, err := b.Watch(wctx, op.Key, r.RevAbs)
			wa.RegRet = s.StepNo()
			wa.ComAtRet = b.GetCurrentRevision()
			if err != nil {
				r.Err = err.Error()
				wa.Refused = err.Error()
				cancel()
				wa.Cancel = nil
			} else {
				r.OK = true
				wa.Ch = ch
				w.startConsumer(wa)
			}
			w.Watchers = append(w.Watchers, wa)
		}
	}()
	finish()
	return r
}

// readStream consumes a range stream until its terminator and records anything after it.
func (w *World) readStream(ch <-chan *proto.StreamRangeResponse) []Batch {
	s := w.S
	var out []Batch
	for {
		s.YieldUntil("client.stream", func() bool { return len(ch) > 0 })
		m, ok := <-ch
		if !ok {
			break
		}
		out = append(out, batchOf(m))
		if m.RangeResponse == nil || !m.RangeResponse.More || len(out) > 10000 {
			// terminator: anything that still arrives is recorded (and is a violation of C13)
			s.Yield("client.stream.end")
			for {
				select {
				case m2, ok2 := <-ch:
					if ok2 {
						out = append(out, batchOf(m2))
						continue
					}
				default:
				}
				break
			}
			break
		}
	}
	return out
}

func batchOf(m *proto.StreamRangeResponse) Batch {
	bt := Batch{Err: m.Err}
	if m.RangeResponse != nil {
		bt.Hdr = m.RangeResponse.Header.GetRevision()
		bt.More = m.RangeResponse.More
		for _, kv := range m.RangeResponse.Kvs {
			bt.KVs = append(bt.KVs, *kvOf(kv))
		}
	}
	return bt
}

func unhex(s string) []byte {
	b := make([]byte, len(s)/2)
	for i := range b {
		v, _ := strconv.ParseUint(s[2*i:2*i+2], 16, 8)
		b[i] = byte(v)
	}
	return b
}

func clip(s string) string {
	if len(s) > 60 {
		return s[:60]
	}
	return s
}

// startConsumer spawns the task that receives from a watch channel.
func (w *World) startConsumer(wa *Watcher) {
	if wa.Consume == "never" {
		return
	}
	every := uint64(0)
	next := uint64(0)
	if strings.HasPrefix(wa.Consume, "every:") {
		n, _ := strconv.Atoi(wa.Consume[6:])
		every = uint64(n)
	}
	if strings.HasPrefix(wa.Consume, "from:") { // from:<step>:every:<n>
		parts := strings.Split(wa.Consume, ":")
		if len(parts) == 4 {
			a, _ := strconv.Atoi(parts[1])
			b, _ := strconv.Atoi(parts[3])
			next, every = uint64(a), uint64(b)
		}
	}
	// lag:<n>:every:<m>: idle until the node has committed n revisions more than this consumer has seen
	// (for one-event batches: n batches are waiting, wherever they are buffered), then one batch every m steps.
	// Unlike from:<step>, this does not depend on how many steps a write takes.
	lagStart, started := uint64(0), true
	if strings.HasPrefix(wa.Consume, "lag:") {
		parts := strings.Split(wa.Consume, ":")
		if len(parts) == 4 {
			a, _ := strconv.Atoi(parts[1])
			b, _ := strconv.Atoi(parts[3])
			lagStart, every, started = uint64(a), uint64(b), false
		}
	}
	s := w.S
	w.S.Go("consumer"+strconv.Itoa(wa.Client)+"."+strconv.Itoa(wa.ID), -1, func() {
		for {
			s.YieldUntil("consume", func() bool {
				if !started && !wa.stop {
					seen := wa.ComAtRet // committed revision when the watch was registered
					if n := len(wa.Events); n > 0 {
						seen = wa.Events[n-1].Rev
					}
					if com := w.committed(wa.Node); com >= seen && com-seen >= lagStart {
						started = true
					}
				}
				return wa.stop || (started && len(wa.Ch) > 0 && s.StepNo() >= next)
			})
			if wa.stop {
				return
			}
			select {
			case evs, ok := <-wa.Ch:
				if !ok {
					wa.Closed = true
					wa.ClosedAt = s.StepNo()
					return
				}
				w.recordEvents(wa, evs)
				s.Note("ev w%d.%d n=%d first=%d", wa.Client, wa.ID, len(evs), evs[0].Revision)
			default:
			}
			if every > 0 {
				next = s.StepNo() + every
			}
		}
	})
}

// ProbeOp executes one operation on behalf of the harness' probe client. Must
// be called from a task.
func (w *World) ProbeOp(op Op) *Rec {
	if w.probe == nil {
		w.probe = &clientState{id: -2, known: map[string][]uint64{}, tomb: map[string]uint64{}, busyNode: -1}
	}
	w.probeIdx++
	return w.exec(w.probe, w.probeIdx, op)
}

// ProbeWatch registers an eagerly consumed watch for the probe client.
func (w *World) ProbeWatch(prefix string, rev uint64) *Watcher {
	w.probeW++
	r := w.ProbeOp(Op{K: "watch", Key: prefix, Rev: Rev{M: "abs", N: int64(rev)}, W: 1000 + w.probeW, Consume: "eager"})
	if r == nil || !r.OK {
		return nil
	}
	return w.Watchers[len(w.Watchers)-1]
}
