package props

import (
	"verif/sim/rt"
	"verif/sim/simkv"
	"verif/sim/world"
)

func init() {
	register(&Prop{
		ID: "C01",
		Gen: func(r *rt.Rand, tier string, idx int) *world.Scenario {
			o := writeOpts{}
			if idx%5 == 4 {
				o.faults = "err"
			}
			if idx%5 == 3 {
				o.compactor = true
			}
			return genWrites(r, tier, idx, o)
		},
		Epilogue: writesEpilogue,
		Check:    checkC01,
	})
	register(&Prop{
		ID: "C02",
		Gen: func(r *rt.Rand, tier string, idx int) *world.Scenario {
			return genWrites(r, tier, idx, writeOpts{reads: true})
		},
		Epilogue: writesEpilogue,
		Check:    checkC02,
	})
	register(&Prop{
		ID: "C04",
		Gen: func(r *rt.Rand, tier string, idx int) *world.Scenario {
			o := writeOpts{future: true}
			if idx%4 == 3 {
				o.faults = "err"
			}
			sc := genWrites(r, tier, idx, o)
			if idx%4 == 2 {
				// every placement of one storage fault over the first 8 data commits x 3 kinds
				k, kind := (idx/4)%8+1, []string{"err", "uncertain-applied", "uncertain-lost"}[(idx/32)%3]
				sc.Class = "writers+one-fault-at-commit-k"
				sc.Plan = append(sc.Plan, &simkv.Fault{Op: "commit", Class: "data", Nth: k, Effect: kind})
				if (idx/4)%2 == 1 && kind == "uncertain-applied" {
					// ... and the repair write of the retry loop, which allocates a revision too, fails
					sc.Class = "writers+unknown-outcome-then-failing-repair"
					sc.Plan = append(sc.Plan, &simkv.Fault{Op: "commit", Class: "data", Who: "retry.tick", Nth: 1, Effect: []string{"err", "uncertain-lost"}[(idx/8)%2]})
					for i := range sc.Clients {
						sc.Clients[i].Ops = append(sc.Clients[i].Ops, world.Op{K: "sleep", Ms: 7000})
					}
					sc.Extra = map[string]int64{"keep_faults": 1}
				}
			}
			return sc
		},
		Setup:    func(c *Ctx) { c.W.SampleCommitted = true },
		Epilogue: writesEpilogue,
		Check:    checkC04,
	})
}
