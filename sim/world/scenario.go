// Package world builds the simulated system (engine, nodes, clients) from a
// scenario and executes it under the token scheduler.
package world

import (
	"verif/sim/simkv"
)

// Rev is a symbolic revision resolved at run time from what the client has seen.
type Rev struct {
	M string `json:"m,omitempty"` // "", zero, abs, known, stale, future, hdr, hdrminus, committed, tomb
	N int64  `json:"n,omitempty"`
}

// Op is one client operation.
type Op struct {
	K       string `json:"k"` // create update delete get list count compact watch cancel sleep stream parts stall
	Key     string `json:"key,omitempty"`
	End     string `json:"end,omitempty"`
	Val     string `json:"val,omitempty"`
	Rev     Rev    `json:"rev,omitempty"`
	Limit   int64  `json:"limit,omitempty"`
	W       int    `json:"w,omitempty"`          // watch id (watch / cancel)
	Consume string `json:"consume,omitempty"`    // eager, never, every:N
	Ms      int64  `json:"ms,omitempty"`         // sleep
	Lease   int64  `json:"lease,omitempty"`      // lease field of a create / update request (seconds)
	Timeout int64  `json:"timeout_ms,omitempty"` // deadline of the request context (simulated ms), 0 = none
	Node    int    `json:"node,omitempty"`
	API     string `json:"api,omitempty"` // "", etcd, brain
}

// Client is a sequence of operations executed by one task.
type Client struct {
	Ops []Op `json:"ops"`
}

// Scenario is everything that defines one simulated run besides the code.
type Scenario struct {
	Prop       string           `json:"prop"`
	Class      string           `json:"class,omitempty"`
	Seed       uint64           `json:"seed"` // scheduling / fault PRNG
	Engine     string           `json:"engine"`
	MetricsKV  bool             `json:"metrics_kv,omitempty"`
	Free       simkv.Freedoms   `json:"free,omitempty"`
	Prefix     string           `json:"prefix"`
	Skipped    []string         `json:"skipped,omitempty"`
	WatchCache int              `json:"watch_cache,omitempty"`
	InitRev    uint64           `json:"init_rev"`
	EtcdCompat bool             `json:"etcd_compat,omitempty"`
	Inactive   []string         `json:"inactive,omitempty"`
	Stick      float64          `json:"stick,omitempty"`
	Prologue   []Op             `json:"prologue,omitempty"`
	Clients    []Client         `json:"clients"`
	Plan       []*simkv.Fault   `json:"plan,omitempty"`
	Rates      simkv.Rates      `json:"rates,omitempty"`
	MaxSteps   int              `json:"max_steps,omitempty"`
	Parts      []string         `json:"parts,omitempty"` // partition borders (hex of internal keys) for the seam
	Extra      map[string]int64 `json:"extra,omitempty"`
	Forced     []string         `json:"forced,omitempty"`
}

// Clone makes a deep copy through JSON-compatible structure copying.
func (sc *Scenario) Clone() *Scenario {
	c := *sc
	c.Skipped = append([]string(nil), sc.Skipped...)
	c.Inactive = append([]string(nil), sc.Inactive...)
	c.Prologue = append([]Op(nil), sc.Prologue...)
	c.Clients = make([]Client, len(sc.Clients))
	for i, cl := range sc.Clients {
		c.Clients[i].Ops = append([]Op(nil), cl.Ops...)
	}
	c.Plan = make([]*simkv.Fault, len(sc.Plan))
	for i, f := range sc.Plan {
		g := simkv.Fault{Op: f.Op, Class: f.Class, Who: f.Who, Node: f.Node, Nth: f.Nth, Effect: f.Effect}
		c.Plan[i] = &g
	}
	c.Parts = append([]string(nil), sc.Parts...)
	if sc.Extra != nil {
		c.Extra = map[string]int64{}
		for k, v := range sc.Extra {
			c.Extra[k] = v
		}
	}
	c.Forced = append([]string(nil), sc.Forced...)
	return &c
}

// NumOps counts client operations.
func (sc *Scenario) NumOps() int {
	n := len(sc.Prologue)
	for _, c := range sc.Clients {
		n += len(c.Ops)
	}
	return n
}

// SkipVerify disables the end-of-run engine-vs-ground-truth comparison.
func (sc *Scenario) SkipVerify() bool { return sc.Extra["skip_verify"] != 0 }

// KeepFaults keeps the fault plan active during the epilogue.
func (sc *Scenario) KeepFaults() bool { return sc.Extra["keep_faults"] != 0 }
