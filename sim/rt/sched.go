// Package rt is the deterministic token scheduler of the simulation.
//
// Every goroutine that executes node or client code between two cooperative
// points ("yields") is a task. A task runs only while it holds the token the
// scheduler hands out; testing/synctest tells the scheduler when the holder
// (and every goroutine it woke) has parked or blocked again. All choices come
// from one PRNG, so one seed is one exactly repeatable execution.
package rt

import (
	"fmt"
	"hash/fnv"
	"runtime"
	"sort"
	"strings"
	"sync"
	"testing/synctest"
	"time"
)

type state int

const (
	stRunning state = iota // holds the token (or has been woken by the holder and runs to its next block)
	stParked               // at a yield, waiting for the token
	stBlocked              // durably blocked somewhere that is not a yield
	stDone                 // function returned / killed
)

// Task is one schedulable goroutine.
type Task struct {
	Name     string
	Node     int
	gid      uint64
	resume   chan struct{}
	st       state
	site     string
	poll     bool
	epoch    uint64
	cond     func() bool
	kill     bool
	stall    uint64 // not eligible before this step while others are
	auto     bool   // registered itself at a yield (not started through Go)
	idleOnly bool   // eligible only when nothing else is
	Steps    uint64
}

// Sched is the scheduler of one simulated run (one synctest bubble).
type Sched struct {
	mu         sync.Mutex
	byGid      map[uint64]*Task
	tasks      []*Task
	nameCnt    map[string]int
	objNames   map[interface{}]string
	objCnt     map[string]int
	rng        *Rand
	step       uint64
	epoch      uint64
	cur        *Task
	last       *Task
	SpawnNode  int
	Stick      float64
	Inactive   map[string]bool
	StallSites map[string]uint64 // a task parking at this site is stalled for n steps (slow goroutine fault)
	StallRand  map[string]uint64 // ... for 0..n steps, drawn from the run PRNG at each arrival
	SiteHits   map[string]uint64
	dead       map[int]bool // crashed nodes
	hash       uint64
	Trace      []string
	KeepTrace  bool
	StepHook   func(step uint64, t *Task)
	// Forced schedule (replay of an explicit schedule); falls back to PRNG.
	Forced      []string
	forcedAt    int
	Hazards     int // two auto-registrations with one base name in one step
	HazardNames map[string]int
	rootGid     uint64
	regStep     map[string]uint64
	Switches    uint64
	start       time.Time
}

// New creates a scheduler. Must be called inside the bubble.
func New(seed uint64) *Sched {
	s := &Sched{
		byGid:      map[uint64]*Task{},
		nameCnt:    map[string]int{},
		objNames:   map[interface{}]string{},
		objCnt:     map[string]int{},
		rng:        NewRand(seed),
		Inactive:   map[string]bool{},
		StallSites: map[string]uint64{},
		StallRand:  map[string]uint64{},
		SiteHits:   map[string]uint64{},
		dead:       map[int]bool{},
		regStep:    map[string]uint64{},
		hash:       1469598103934665603,
		start:      time.Now(),
	}
	s.rootGid = goid()
	return s
}

// Rng exposes the run PRNG to code that holds the token (fault decisions).
func (s *Sched) Rng() *Rand { return s.rng }

// StepNo is the global event sequence number.
func (s *Sched) StepNo() uint64 { return s.step }

// SimTime is the simulated time since the start of the run.
func (s *Sched) SimTime() time.Duration { return time.Since(s.start) }

// goidSlow parses the id from the header line of a stack dump (portable, about 1.5 us with deep stacks).
func goidSlow() uint64 {
	var buf [40]byte
	n := runtime.Stack(buf[:], false)
	// "goroutine 123 ["
	var id uint64
	for i := 10; i < n; i++ {
		c := buf[i]
		if c < '0' || c > '9' {
			break
		}
		id = id*10 + uint64(c-'0')
	}
	return id
}

func (s *Sched) mix(str string) {
	h := s.hash
	for i := 0; i < len(str); i++ {
		h ^= uint64(str[i])
		h *= 1099511628211
	}
	h ^= 0xff
	h *= 1099511628211
	s.hash = h
}

// Note folds a harness-level observation into the event-log hash (and trace).
// Call only while holding the token or from the scheduler goroutine.
func (s *Sched) Note(format string, args ...interface{}) {
	str := fmt.Sprintf(format, args...)
	s.mu.Lock()
	s.mix(str)
	if s.KeepTrace {
		s.Trace = append(s.Trace, fmt.Sprintf("%d  . %s", s.step, str))
	}
	s.mu.Unlock()
}

// Hash of the event log so far.
func (s *Sched) Hash() uint64 { return s.hash }

func keyString(s *Sched, keys []interface{}) string {
	if len(keys) == 0 {
		return ""
	}
	var b strings.Builder
	for i, k := range keys {
		if i > 0 {
			b.WriteByte(',')
		}
		switch v := k.(type) {
		case string:
			b.WriteString(v)
		case []byte:
			fmt.Fprintf(&b, "%x", v)
		case bool, int, int64, uint64, uint32, int32:
			fmt.Fprintf(&b, "%v", v)
		default:
			if n, ok := s.objNames[k]; ok {
				b.WriteString(n)
			} else {
				b.WriteString("?")
			}
		}
	}
	return b.String()
}

// NameObj gives obj (a channel, a pointer) a stable ordinal identity.
func (s *Sched) NameObj(kind string, obj interface{}) {
	s.mu.Lock()
	if _, ok := s.objNames[obj]; !ok {
		s.objCnt[kind]++
		s.objNames[obj] = fmt.Sprintf("%s%d", kind, s.objCnt[kind])
	}
	s.mu.Unlock()
}

// ObjName returns the ordinal identity of obj ("" if unnamed).
func (s *Sched) ObjName(obj interface{}) string {
	s.mu.Lock()
	defer s.mu.Unlock()
	return s.objNames[obj]
}

func (s *Sched) registerLocked(gid uint64, base string, auto bool) *Task {
	n := s.nameCnt[base]
	s.nameCnt[base] = n + 1
	name := base
	if n > 0 || auto {
		name = fmt.Sprintf("%s#%d", base, n)
	}
	if auto {
		if st, ok := s.regStep[base]; ok && st == s.step && s.step > 0 && !strings.Contains(base, ":kv.iter(") {
			// two goroutines with one name in one step: which is which is not decided by the PRNG.
			// (kv.iter names carry both bounds of the iteration: equal names are identical requests,
			// e.g. two empty partitions after border adjustment, and therefore interchangeable.)
			s.Hazards++
			if s.HazardNames == nil {
				s.HazardNames = map[string]int{}
			}
			s.HazardNames[base]++
		}
		s.regStep[base] = s.step
	}
	t := &Task{Name: name, gid: gid, resume: make(chan struct{}), auto: auto}
	if s.cur != nil {
		t.Node = s.cur.Node
	} else {
		t.Node = s.SpawnNode
	}
	s.byGid[gid] = t
	s.tasks = append(s.tasks, t)
	return t
}

// IsRoot reports whether the caller is the goroutine that created the scheduler.
func (s *Sched) IsRoot() bool { return goid() == s.rootGid }

// HoldsToken reports whether the calling goroutine is the task that holds the token.
func (s *Sched) HoldsToken() (holder bool, isTask bool) {
	gid := goid()
	s.mu.Lock()
	defer s.mu.Unlock()
	t := s.byGid[gid]
	return s.cur != nil && s.cur.gid == gid, t != nil
}

// AddHazard records a determinism hazard observed by the harness.
func (s *Sched) AddHazard(name string) {
	s.mu.Lock()
	s.Hazards++
	if s.HazardNames == nil {
		s.HazardNames = map[string]int{}
	}
	s.HazardNames[name]++
	s.mu.Unlock()
}

// Current returns the task of the calling goroutine (nil if it is not a task).
func (s *Sched) Current() *Task {
	gid := goid()
	s.mu.Lock()
	t := s.byGid[gid]
	s.mu.Unlock()
	return t
}

// NodeOfCaller returns the node of the calling goroutine: its own if it is a task, otherwise that
// of the task holding the token (a goroutine the token holder has just spawned), otherwise SpawnNode.
func (s *Sched) NodeOfCaller() int {
	gid := goid()
	s.mu.Lock()
	defer s.mu.Unlock()
	if t := s.byGid[gid]; t != nil {
		return t.Node
	}
	if s.cur != nil {
		return s.cur.Node
	}
	return s.SpawnNode
}

// Go starts f as a named task; it first runs when the scheduler picks it.
func (s *Sched) Go(name string, node int, f func()) *Task {
	ready := make(chan *Task)
	go func() {
		gid := goid()
		s.mu.Lock()
		t := s.registerLocked(gid, name, false)
		t.Node = node
		t.st = stParked
		t.site = "start"
		s.mu.Unlock()
		ready <- t
		<-t.resume
		if t.kill {
			s.finish(t)
			return
		}
		defer s.finish(t)
		f()
	}()
	return <-ready
}

func (s *Sched) finish(t *Task) {
	s.mu.Lock()
	t.st = stDone
	s.mu.Unlock()
}

// YieldIdle parks until no other task can run (the rest of the system is quiescent).
func (s *Sched) YieldIdle(site string) {
	gid := goid()
	s.mu.Lock()
	if t := s.byGid[gid]; t != nil {
		t.idleOnly = true
	}
	s.mu.Unlock()
	s.park(site, nil, false, nil)
}

func (s *Sched) park(site string, keys []interface{}, poll bool, cond func() bool) {
	if s.Inactive[site] {
		return
	}
	gid := goid()
	s.mu.Lock()
	t := s.byGid[gid]
	if t == nil {
		base := site
		if ks := keyString(s, keys); ks != "" {
			base = site + "(" + ks + ")"
		}
		node := s.SpawnNode
		if s.cur != nil {
			node = s.cur.Node
		}
		base = fmt.Sprintf("n%d:%s", node, base)
		t = s.registerLocked(gid, base, true)
	}
	t.st = stParked
	t.site = site
	t.poll = poll
	t.epoch = s.epoch
	t.cond = cond
	s.SiteHits[site]++
	if n := s.StallSites[site]; n > 0 {
		t.stall = s.step + n
	}
	if n := s.StallRand[site]; n > 0 {
		t.stall = s.step + uint64(s.rng.Intn(int(n)+1))
	}
	s.mu.Unlock()
	<-t.resume
	if t.kill {
		s.finish(t)
		runtime.Goexit()
	}
}

// Yield is a cooperative point: the caller parks until the scheduler picks it.
func (s *Sched) Yield(site string, keys ...interface{}) { s.park(site, keys, false, nil) }

// Poll is a yield for the idle branch of a busy loop: the task becomes eligible
// again only after some other task has executed a step.
func (s *Sched) Poll(site string) { s.park(site, nil, true, nil) }

// YieldUntil parks until cond() holds (evaluated by the scheduler between steps).
func (s *Sched) YieldUntil(site string, cond func() bool) { s.park(site, nil, false, cond) }

// Stall makes t ineligible for n steps as long as anything else can run.
func (s *Sched) Stall(t *Task, n uint64) {
	s.mu.Lock()
	t.stall = s.step + n
	s.mu.Unlock()
}

// CrashNode: tasks of the node are never resumed again.
func (s *Sched) CrashNode(node int) {
	s.mu.Lock()
	s.dead[node] = true
	s.mu.Unlock()
}

// NodeDead reports whether the node has crashed.
func (s *Sched) NodeDead(node int) bool {
	s.mu.Lock()
	defer s.mu.Unlock()
	return s.dead[node]
}

func (s *Sched) eligibleLocked() []*Task {
	var el, stalled, idle []*Task
	for _, t := range s.tasks {
		if t.st != stParked || s.dead[t.Node] {
			continue
		}
		if t.poll && s.epoch <= t.epoch {
			continue
		}
		if t.cond != nil && !t.cond() {
			continue
		}
		if t.idleOnly {
			idle = append(idle, t)
			continue
		}
		if t.stall > s.step {
			stalled = append(stalled, t)
			continue
		}
		el = append(el, t)
	}
	if len(el) == 0 {
		el = stalled
	}
	if len(el) == 0 {
		el = idle
	}
	sort.Slice(el, func(i, j int) bool { return el[i].Name < el[j].Name })
	return el
}

// Step runs one task for one step. It returns false when nothing is eligible.
func (s *Sched) Step() bool {
	s.mu.Lock()
	el := s.eligibleLocked()
	if len(el) == 0 {
		s.mu.Unlock()
		return false
	}
	var pick *Task
	if s.forcedAt < len(s.Forced) {
		want := s.Forced[s.forcedAt]
		s.forcedAt++
		for _, t := range el {
			if t.Name == want {
				pick = t
				break
			}
		}
	}
	if pick == nil && s.Stick > 0 && s.last != nil && len(el) > 1 {
		for _, t := range el {
			if t == s.last {
				if s.rng.Float64() < s.Stick {
					pick = t
				}
				break
			}
		}
	}
	if pick == nil {
		pick = el[s.rng.Intn(len(el))]
	}
	s.step++
	if !pick.poll {
		s.epoch++
	}
	if pick != s.last {
		s.Switches++
	}
	pick.st = stRunning
	pick.idleOnly = false
	pick.Steps++
	s.cur = pick
	s.last = pick
	s.mix(pick.Name)
	s.mix(pick.site)
	if s.KeepTrace {
		s.Trace = append(s.Trace, fmt.Sprintf("%d %s @%s", s.step, pick.Name, pick.site))
	}
	s.mu.Unlock()

	pick.resume <- struct{}{}
	synctest.Wait()

	s.mu.Lock()
	if pick.st == stRunning {
		pick.st = stBlocked
	}
	s.cur = nil
	s.mu.Unlock()
	if s.StepHook != nil {
		s.StepHook(s.step, pick)
	}
	return true
}

// Settle lets goroutines woken by something the scheduler goroutine itself did
// (spawning, closing, cancelling) run to their next block.
func (s *Sched) Settle() { synctest.Wait() }

// Advance moves the simulated clock by d while no task holds the token.
func (s *Sched) Advance(d time.Duration) {
	s.mu.Lock()
	s.mix("advance")
	s.mix(d.String())
	if s.KeepTrace {
		s.Trace = append(s.Trace, fmt.Sprintf("%d  ~ advance %s", s.step, d))
	}
	// time passing counts as progress for pollers
	s.epoch++
	s.mu.Unlock()
	time.Sleep(d)
	synctest.Wait()
}

// Eligible reports how many tasks could run now.
func (s *Sched) Eligible() int {
	s.mu.Lock()
	defer s.mu.Unlock()
	return len(s.eligibleLocked())
}

// Quiesce runs steps until nothing is eligible or max steps were taken.
// Returns the number of steps taken.
func (s *Sched) Quiesce(max int) int {
	n := 0
	for n < max && s.Step() {
		n++
	}
	return n
}

// KillParked terminates every parked task whose site is in sites (Goexit inside
// the hook). Used at teardown for background loops without deferred fatal paths.
func (s *Sched) KillParked(sites map[string]bool) int {
	s.mu.Lock()
	var victims []*Task
	for _, t := range s.tasks {
		if t.st == stParked && sites[t.site] {
			victims = append(victims, t)
		}
	}
	s.mu.Unlock()
	for _, t := range victims {
		t.kill = true
		t.resume <- struct{}{}
	}
	synctest.Wait()
	return len(victims)
}

// Tasks returns a snapshot of task names and states (for diagnostics).
func (s *Sched) Tasks() []string {
	s.mu.Lock()
	defer s.mu.Unlock()
	var out []string
	for _, t := range s.tasks {
		st := [...]string{"running", "parked", "blocked", "done"}[t.st]
		out = append(out, fmt.Sprintf("%s[%s@%s]", t.Name, st, t.site))
	}
	return out
}

// ScheduleHash hashes only the (task, site) sequence.
func HashStrings(ss []string) uint64 {
	h := fnv.New64a()
	for _, x := range ss {
		h.Write([]byte(x))
		h.Write([]byte{0})
	}
	return h.Sum64()
}
