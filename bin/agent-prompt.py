import json,sys,glob
pid=sys.argv[1]; first=int(sys.argv[2]); n=int(sys.argv[3])
props={json.loads(l)['id']:json.loads(l) for l in open('/verif/properties.jsonl')}
p=props[pid]
prior=[]
for d in sorted(glob.glob(f'/verif/seeded/{pid}-m*/meta.json')):
    prior.append(json.load(open(d))['what'])
ids=", ".join(f"{pid}-m{first+i}" for i in range(n))
extra=""
if pid=="C19": extra="\nFor this property the demonstration must be run with the race detector: `go test -race -vet=off -count=1 -run <Name> <pkg>` (say so in the README)."
if pid=="C20": extra="\nFor this property remember that the production metrics client is pkg/metrics/prometheus (NewMetrics()), which panics where the gomock stub accepts anything."
print(f"""You are helping test a verification effort for the Go project kubebrain (an etcd-compatible MVCC metadata layer for Kubernetes over pluggable KV engines). You have your own scratch git worktree of the repository at /tmp/wt-{pid} (work ONLY there; never touch /repo or /verif, and do not read anything under /verif). Never use `git stash` (the stash is shared between worktrees); to revert use `git checkout -- .`.

Here is one semantic property the project is supposed to satisfy:

  Title: {p['title']}
  Statement: {p['statement']}
  Quantified over: {p['quantifier']['text']}
  Relevant files: {', '.join(p['anchors']['files'])}

Your task: produce {n} DIFFERENT realistic change(s) to the repository source (non-test .go files under /tmp/wt-{pid}/pkg or /cmd) each of which BREAKS this property while the project still compiles and the existing test suite still passes. Each change must need something specific to manifest - a particular interleaving of concurrent requests, a fault/crash at a particular point, a multi-step sequence of operations, an unusual input, a particular engine or configuration, or two cooperating edits that each look fine alone - NOT something ordinary single-client use would expose immediately. Think of plausible developer mistakes or 'optimisations' (off-by-one, dropped condition, reordered steps, missing lock, wrong variable, error swallowed, stale cached value), not sabotage that breaks everything. Keep each change small (a few lines). Do not touch the lines that call verifhook.* and do not edit pkg/verifhook.

These ideas have ALREADY been used by others - yours must be different in mechanism and preferably in a different function or file (also look beyond the 'relevant files' at code they call or that calls them):
""" + "\n".join(f"  - {w}" for w in prior) + f"""

Name your changes {ids}. For each change create a directory /tmp/wt-{pid}/_mutation/<name>/ containing:
  - patch.diff : `git diff` of ONLY that change against the worktree's HEAD (apply cleanly with `git apply`)
  - demo_test.go (or a small program) plus a README.md saying exactly where to copy it and how to run it: a demonstration that FAILS with the change applied and PASSES without it (run it at least 3 times each way: it must be reliable). The demonstration may use internal packages (put the test file into the package it needs, e.g. pkg/backend). It may drive goroutines, inject storage faults by wrapping storage.KvStorage, etc. Use a test function name that contains the change name without the dash (e.g. Test{pid}M{first}).
  - meta.json : {{"property": "{pid}", "what": "<one sentence: what the change does>", "needs": "<what is required for it to manifest>", "files": [...]}}
After writing the artefacts of one change, revert the worktree to HEAD (git checkout -- . ; remove the copied demo test) before starting the next, so the worktree ends clean except for _mutation/.{extra}

Verify yourself, for each change: (1) with the patch applied `go build ./...` succeeds and the existing tests pass; (2) the demo fails with the patch and passes without it.

Environment notes: no network. Always `export GOFLAGS=-mod=mod GOPROXY=off GOSUMDB=off` before go commands. Use the default `go` (1.23). Run the existing tests with `cd /tmp/wt-{pid} && go test -vet=off -count=1 ./pkg/...` (about 40-90 s; pkg/util TestGetHost fails even on the untouched tree - ignore it; the machine is busy, be patient with timeouts). Engines available in tests: memkv (pkg/storage/memkv.NewKvStorage()), badger (pkg/storage/badger), and a TiKV mock (see newTestRefactorTiKVStorage in pkg/backend/backend_test.go). backend.NewBackend(kv, backend.Config{{Prefix: "/registry"}}, metrics) needs a metrics.Metrics: the tests use pkg/metrics/mock with gomock (see newTestSuites in pkg/backend/backend_test.go); after NewBackend call SetCurrentRevision(n) to initialise the revision counter.

Finish with a short summary listing, per change, its name, the files touched, the exact copy destination and test name of the demo, and how the demo shows the break.""")
