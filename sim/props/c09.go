package props

import (
	"fmt"
	"strings"

	"verif/sim/rt"
	"verif/sim/simkv"
	"verif/sim/world"
)

// C09 — indeterminate storage outcomes are repaired, never mis-reported.

const c09Variants = 46

func genC09(r *rt.Rand, tier string, idx int) *world.Scenario {
	V := c09Variants
	h, v := idx/V, idx%V
	rh := rt.NewRand(rt.Mix(rt.MixStr(BaseSeed, "C09-script"), uint64(h)))
	sc := &world.Scenario{Prefix: prefix, InitRev: pickInitRev(rh), Seed: r.Uint64(), Engine: "memkv", EtcdCompat: true}
	if x := rh.Intn(10); x == 0 {
		sc.Engine = "badger"
	}
	keys := []string{prefix + "/a", prefix + "/b", prefix + "/a/b"}[:1+rh.Intn(3)]
	nw := 3 + rh.Intn(9)
	var a world.Client
	// make sure the keys have some history so that updates and deletes have something to hit
	for _, k := range keys {
		if rh.Chance(0.6) {
			sc.Prologue = append(sc.Prologue, world.Op{K: "create", Key: k, Val: "p-" + k})
		}
	}
	if len(sc.Prologue) > 0 {
		sc.Prologue = append(sc.Prologue, world.Op{K: "waitcommitted"})
	}
	for i := 0; i < nw; i++ {
		k := keys[rh.Intn(len(keys))]
		val := fmt.Sprintf("v%d", i)
		switch rh.Weighted(30, 35, 20, 15) {
		case 0:
			a.Ops = append(a.Ops, world.Op{K: "create", Key: k, Val: val})
		case 1:
			a.Ops = append(a.Ops, world.Op{K: "get", Key: k}, world.Op{K: "update", Key: k, Val: val, Rev: world.Rev{M: "known"}})
		case 2:
			a.Ops = append(a.Ops, world.Op{K: "get", Key: k}, world.Op{K: "delete", Key: k, Rev: world.Rev{M: "known"}})
		case 3:
			a.Ops = append(a.Ops, world.Op{K: "compact", Rev: world.Rev{M: "zero"}})
		}
		switch rh.Weighted(60, 20, 20) {
		case 1:
			a.Ops = append(a.Ops, world.Op{K: "sleep", Ms: int64(500 + rh.Intn(3000))})
		case 2:
			a.Ops = append(a.Ops, world.Op{K: "sleep", Ms: int64(5500 + rh.Intn(3000))}) // past the retry interval
		}
	}
	reader := world.Client{Ops: []world.Op{
		{K: "list", Key: prefix + "/", End: prefix + "0"},
		{K: "watch", Key: prefix + "/", Rev: world.Rev{M: "hdrplus", N: 1}, W: 1, Consume: "eager"},
	}}
	sc.Clients = []world.Client{a, reader}
	if rh.Chance(0.4) {
		// a second writer on the same keys
		var b world.Client
		for i := 0; i < 2+rh.Intn(5); i++ {
			k := keys[rh.Intn(len(keys))]
			b.Ops = append(b.Ops, world.Op{K: "get", Key: k}, world.Op{K: "update", Key: k, Val: fmt.Sprintf("w%d", i), Rev: world.Rev{M: "known"}})
			if rh.Chance(0.3) {
				b.Ops = append(b.Ops, world.Op{K: "sleep", Ms: int64(rh.Intn(7000))})
			}
		}
		sc.Clients = append(sc.Clients, b)
	}
	kinds := []string{"uncertain-applied", "uncertain-lost"}
	switch {
	case v < 16: // every placement of one fault over the first 8 data commits
		sc.Class = "one-unknown-outcome"
		sc.Plan = []*simkv.Fault{{Op: "commit", Class: "data", Who: "client", Nth: v/2 + 1, Effect: kinds[v%2]}}
	case v < 34: // a fault on a client commit and a fault on the repair write itself
		sc.Class = "unknown-outcome-on-the-repair-too"
		x := v - 16
		first := x / 6
		rk := []string{"uncertain-applied", "uncertain-lost", "err"}[x%3]
		sc.Plan = []*simkv.Fault{
			{Op: "commit", Class: "data", Who: "client", Nth: first + 1, Effect: kinds[(x/3)%2]},
			{Op: "commit", Class: "data", Who: "retry.tick", Nth: 1, Effect: rk},
		}
	case v >= 40: // a burst: three to five consecutive client commits answered "outcome unknown"
		sc.Class = "burst-of-unknown-outcomes"
		x := v - 40
		first := 1 + x%3
		for i := 0; i < 3+x/3+r.Intn(2); i++ {
			sc.Plan = append(sc.Plan, &simkv.Fault{Op: "commit", Class: "data", Who: "client", Nth: first + i, Effect: kinds[r.Intn(2)]})
		}
	default: // pairs
		sc.Class = "two-unknown-outcomes"
		x := v - 34
		sc.Plan = []*simkv.Fault{
			{Op: "commit", Class: "data", Who: "client", Nth: 1 + x%3, Effect: kinds[x%2]},
			{Op: "commit", Class: "data", Who: "client", Nth: 2 + x%3 + r.Intn(3), Effect: kinds[(x/2)%2]},
		}
	}
	if r.Chance(0.3) {
		// the outage lasts a little longer than the one lost answer: the repair's first look(s) at the key fail too
		sc.Class += "+repair-read-fails"
		for i := 0; i < 1+r.Intn(2); i++ {
			sc.Plan = append(sc.Plan, &simkv.Fault{Op: []string{"iter", "next"}[r.Intn(2)], Who: "retry.tick", Nth: i + 1, Effect: "err"})
		}
		if r.Chance(0.5) {
			// ... while somebody compacts: a compaction is held below the oldest unresolved revision, whatever
			// order the repair loop works in
			var cc world.Client
			for i := 0; i < 2+r.Intn(4); i++ {
				cc.Ops = append(cc.Ops, world.Op{K: "sleep", Ms: int64(300 + r.Intn(2500))}, world.Op{K: "compact", Rev: world.Rev{M: "zero"}})
			}
			sc.Clients = append(sc.Clients, cc)
			sc.Class += "+compactions"
		}
	}
	sc.Inactive = swarmSites(r, "kv.commit", "kv.commit.ret", "seq.commit")
	sc.Extra = map[string]int64{"keep_faults": 1}
	sc.MaxSteps = 60000
	return sc
}

type c09Final struct {
	lists map[*world.Watcher]*world.Rec
}

var c09Finals = map[*world.World]*c09Final{}

func c09Epilogue(c *Ctx) {
	w := c.W
	// repairs may still be faulted by the plan during the first idle period (done by the harness);
	// now the engine answers again: let every re-queued repair run (retry interval 5 s, tick 1 s)
	w.KV.StopFaults()
	w.Idle(9e9, 8000)
	writesEpilogue(c) // liveness probe + final Gets
	fin := &c09Final{lists: map[*world.Watcher]*world.Rec{}}
	c09Finals[w] = fin
	w.RunTask("c09-final", -1, 5000, func() {
		for _, wa := range w.Watchers {
			if wa.Client < 0 {
				continue
			}
			fin.lists[wa] = w.ProbeOp(world.Op{K: "list", Key: wa.Prefix, End: string(prefixEnd([]byte(wa.Prefix)))})
		}
	})
	w.Idle(1e9, 2000)
}

func checkC09(c *Ctx) {
	const P = "C09"
	w, out := c.W, c.Out
	fin := c09Finals[w]
	delete(c09Finals, w)
	tl := buildTimeline(w.KV.GT)
	var faulted []*simkv.Entry
	repairFaulted := ""
	for _, e := range w.KV.GT {
		if strings.HasPrefix(e.Fault, "uncertain") && e.Class == "data" {
			if e.ByRetry {
				repairFaulted = " repair-" + e.Fault
				out.probe("repair-write-itself-" + e.Fault)
				continue
			}
			faulted = append(faulted, e)
		}
		if e.ByRetry && e.Fault == "err" {
			repairFaulted = " repair-err"
		}
	}
	if len(faulted) == 0 {
		return // the planned position was beyond the script: nothing to decide
	}
	out.NonTrivial = true
	sigCtx := ""
	for _, e := range faulted {
		r, _ := e.Tag.(*world.Rec)
		if r == nil {
			continue
		}
		out.probe("unknown-outcome-" + r.Op.K + "-" + e.Fault)
		// (1) the client gets an error: never a success, never a definite conflict
		if r.Done && r.Err == "" {
			out.violate(P, "unknown-outcome-misreported", "unknown-outcome-misreported op="+r.Op.K,
				"%s %s whose commit outcome was unknown (%s) was answered Succeeded=%v instead of an error", r.Op.K, r.Op.Key, e.Fault, r.OK)
		}
		if sigCtx == "" {
			sigCtx = fmt.Sprintf(" first=%s/%s", r.Op.K, e.Fault)
		}
		// (3) no accepted compaction reaches the unresolved revision during the first 5 s
		_, u, _ := versionRev(e)
		for _, cr := range w.Recs {
			if cr.Op.K == "compact" && cr.Done && cr.Err == "" && cr.Inv > e.RetStep && cr.InvMs < e.RetMs+4900 && cr.Hdr >= u {
				out.violate(P, "compaction-passed-unresolved-revision", "compaction-passed-unresolved-revision",
					"compaction accepted at %d while the write at revision %d was still unresolved (unknown outcome at t=%dms, compaction at t=%dms)", cr.Hdr, u, e.RetMs, cr.InvMs)
			}
		}
	}
	sigCtx += repairFaulted
	// (2) later requests keep flowing and become visible
	fr := c.Fin
	if w.Stuck {
		out.violate(P, "requests-stalled", "requests-stalled", "client requests did not finish after an unknown outcome: %s", w.StuckWhy)
		return
	}
	if fr == nil || !fr.Finished {
		out.violate(P, "probe-stalled", "probe-stalled", "liveness probe did not finish")
		return
	}
	if fr.ProbeOK && (!fr.ProbeSeen || !fr.ProbeEvent) {
		out.violate(P, "later-write-not-visible", "later-write-not-visible", "a write acknowledged at %d after the faults never became readable/watchable (listed=%v event=%v committed=%d)", fr.ProbeRev, fr.ProbeSeen, fr.ProbeEvent, fr.Committed)
	}
	var maxAlloc uint64
	for _, e := range w.KV.GT {
		if _, rev, ok := versionRev(e); ok && e.Class == "data" && rev > maxAlloc {
			maxAlloc = rev
		}
	}
	if fr.Committed < maxAlloc {
		out.violate(P, "committed-behind-allocated", "committed-behind-allocated", "read revision %d never reached allocated revision %d", fr.Committed, maxAlloc)
	}
	// (4) convergence
	checkChain(c, P, false)
	for key, rec := range fr.Gets {
		if rec == nil || !rec.Done || rec.Err != "" {
			continue
		}
		st := tl.Final(key)
		if st.Exists != (rec.KV != nil) || (st.Exists && (rec.KV.Rev != st.Rev || rec.KV.Val != st.Val)) {
			out.violate(P, "final-get", "final-get", "key %s: final Get returned %+v, newest stored version is %+v", key, rec.KV, st)
		}
	}
	if q, ok := w.Nodes[0].M.Gauge("async_retry.queue_size"); ok && q != 0 {
		out.violate(P, "retry-queue-not-drained", "retry-queue-not-drained"+sigCtx, "retry queue still holds %v entries 21 simulated seconds after the engine answered again", q)
	}
	if fin != nil {
		for _, wa := range w.Watchers {
			l := fin.lists[wa]
			if l == nil || l.Err != "" || wa.Refused != "" || wa.Closed {
				continue
			}
			var base *world.Rec
			for _, r := range w.Recs {
				if r.Client == wa.Client && r.Op.K == "list" && r.Done && r.Err == "" && r.Ret < wa.RegInv {
					base = r
				}
			}
			if base == nil || wa.Start != base.Hdr+1 {
				continue
			}
			got := reconstruct(base.KVs, wa.Events, l.Hdr)
			out.probe("convergence-compared")
			if !equalWKVs(got, l.KVs) {
				out.violate(P, "no-convergence", "no-convergence"+sigCtx,
					"list at %d + %d delivered events = %v, but the store finally reads %v (at %d)", base.Hdr, len(wa.Events), got, l.KVs, l.Hdr)
			}
		}
	}
	for _, e := range w.KV.GT {
		if e.ByRetry && e.Applied {
			out.probe("retry-rewrote")
		}
	}
	if n := w.Nodes[0].M.Shapes["async_retry.retry"]; n != nil {
		out.probe("retry-ran")
	}
}

func init() {
	register(&Prop{ID: "C09", Gen: genC09, Epilogue: c09Epilogue, Check: checkC09})
}
