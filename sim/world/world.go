package world

import (
	"context"
	"encoding/hex"
	"fmt"
	"k8s.io/klog/v2"
	"os"
	"sort"
	"strings"
	"time"

	proto "github.com/kubewharf/kubebrain-client/api/v2rpc"

	"github.com/kubewharf/kubebrain/pkg/backend"
	"github.com/kubewharf/kubebrain/pkg/metrics"
	"github.com/kubewharf/kubebrain/pkg/storage"
	kvmetrics "github.com/kubewharf/kubebrain/pkg/storage/metrics"
	"github.com/kubewharf/kubebrain/pkg/verifhook"

	"verif/sim/rt"
	"verif/sim/simkv"
)

// RealMetrics, when set by the worker, is the process-wide real Prometheus client.
var RealMetrics metrics.Metrics

// KV as observed in a response.
type KV struct {
	Key string `json:"key"`
	Val string `json:"val"`
	Rev uint64 `json:"rev"`
}

// Rec is one invoke/return record of the history.
type Rec struct {
	Client   int       `json:"c"`
	Idx      int       `json:"i"`
	Op       Op        `json:"op"`
	RevAbs   uint64    `json:"rev_abs"` // resolved revision argument
	Inv      uint64    `json:"inv"`
	Ret      uint64    `json:"ret"`
	Done     bool      `json:"done"`
	Err      string    `json:"err,omitempty"`
	OK       bool      `json:"ok"`
	Hdr      uint64    `json:"hdr"`
	KV       *KV       `json:"kv,omitempty"`
	KVs      []KV      `json:"kvs,omitempty"`
	More     bool      `json:"more,omitempty"`
	Count    uint64    `json:"count,omitempty"`
	ComInv   uint64    `json:"com_inv"` // committed revision sampled at invoke
	ComRet   uint64    `json:"com_ret"`
	Task     string    `json:"task"`
	Batches  []Batch   `json:"batches,omitempty"` // stream
	PartKeys []string  `json:"part_keys,omitempty"`
	Streams  [][]Batch `json:"streams,omitempty"`
	Node     int       `json:"node"`
	InvMs    int64     `json:"inv_ms"`
	RetMs    int64     `json:"ret_ms"`
}

// Batch is one message of a streamed range.
type Batch struct {
	Hdr  uint64 `json:"hdr"`
	KVs  []KV   `json:"kvs,omitempty"`
	More bool   `json:"more"`
	Err  string `json:"err,omitempty"`
}

// Ev is one delivered watch event.
type Ev struct {
	Type  string `json:"t"` // CREATE PUT DELETE
	Key   string `json:"key"`
	Val   string `json:"val"`
	Rev   uint64 `json:"rev"`    // event revision
	KvRev uint64 `json:"kv_rev"` // Kv.Revision
	Step  uint64 `json:"step"`
	Batch int    `json:"batch"`
}

// Watcher is one watch as seen by its consumer.
type Watcher struct {
	ID       int
	Client   int
	Node     int
	Prefix   string
	Start    uint64
	RegInv   uint64
	RegRet   uint64
	ComAtRet uint64 // committed revision sampled when Watch returned
	ComAtInv uint64
	Refused  string
	Ch       <-chan []*proto.Event
	Cancel   context.CancelFunc
	Events   []Ev
	Batches  int
	Closed   bool
	ClosedAt uint64
	Canceled bool
	Consume  string
	stop     bool
}

// Node is one KubeBrain node.
type Node struct {
	ID   int
	B    backend.Backend
	H    *simkv.Handle
	M    *RecMetrics
	Cfg  backend.Config
	Dead bool
}

// HeldSync is a leader's answer to a follower's revision request, not yet applied by the follower.
type HeldSync struct {
	Node int
	Rev  uint64
}

// World is one simulated run.
type World struct {
	Sc              *Scenario
	S               *rt.Sched
	KV              *simkv.World
	Nodes           []*Node
	Recs            []*Rec
	Watchers        []*Watcher
	ComSamples      []uint64 // committed revision of node 0 after every step (index = step)
	SampleCommitted bool
	done            int
	started         bool
	proDone         bool
	Stuck           bool
	StuckWhy        string
	lastProgress    time.Duration
	tmpDir          string
	closers         []func()
	engineDirs      []string
	clients         []*clientState
	OnStep          func(step uint64)
	progressMark    int
	doneRecs        int
	probe           *clientState
	Panics          []string
	// a fault below the TiKV adapter (Extra["tikv_scan_fault"]): armed by the property once its preload is done
	TiKVScanFaultArmed       bool
	TiKVScanFaultFired       int
	TiKVSecondaryCommitsHeld int
	// TiKVOracleOutage: that many of the next timestamp requests of the TiKV clients fail (below the adapter)
	TiKVOracleOutage   int
	TiKVOracleFailed   int
	TiKVGetFaultFired  int
	HeldSyncs          []HeldSync // answers of the leader to follower reads that the follower has not applied yet
	Fatals             []string   // klog.Fatal calls of node code (the node crashed there)
	OnFatal            func(node int, msg string)
	FineClock          bool // never let the clock hop far while tasks may become eligible (electors)
	YieldOnSetRevision bool // also yield when an unregistered goroutine (the elector\'s OnStartedLeading) sets the revision
	inflight           map[string]*Rec
	probeIdx           int
	probeW             int
}

type clientState struct {
	id          int
	known       map[string][]uint64
	tomb        map[string]uint64
	lastHdr     uint64
	lastListHdr uint64
	maxSeen     uint64
	task        *rt.Task
	finished    bool
	busyNode    int
	sleepUntil  time.Duration
}

// InstallHooks points the repository's hook functions at the scheduler.
func InstallHooks(s *rt.Sched) {
	verifhook.YieldFn = func(site string, keys ...interface{}) {
		if site == "hub.fanout.done" {
			// only interesting when the fan-out found a slow subscriber
			if n, ok := keys[0].(int); !ok || n == 0 {
				return
			}
			keys = nil
		}
		if site == "hub.delete" && len(keys) == 2 {
			if lock, ok := keys[1].(bool); ok && !lock {
				return // called with the hub lock held: never park
			}
			keys = keys[:1]
		}
		s.Yield(site, keys...)
	}
	verifhook.PollFn = func(site string) { s.Poll(site) }
	verifhook.NameFn = func(kind string, obj interface{}) { s.NameObj(kind, obj) }
}

// UninstallHooks removes the hook functions.
func UninstallHooks() {
	verifhook.YieldFn, verifhook.PollFn, verifhook.NameFn = nil, nil, nil
	klog.FatalHookForSim = nil
}

// onFatal: node code called klog.Fatal. A real node's process ends there; the simulated node
// crashes (none of its tasks runs again) and the calling goroutine never returns.
func (w *World) onFatal(msg string) {
	node := w.S.NodeOfCaller()
	msg = strings.TrimSpace(msg)
	if i := strings.Index(msg, "] "); i >= 0 {
		msg = msg[i+2:] // klog's header carries the process id: not part of a replayable event log
	}
	w.Fatals = append(w.Fatals, fmt.Sprintf("node %d: %s", node, msg))
	w.S.Note("klog.Fatal on node %d: %s", node, msg)
	w.S.CrashNode(node)
	if w.OnFatal != nil {
		w.OnFatal(node, msg)
	}
	select {}
}

// New builds the world of a scenario. Must run inside the bubble on the
// scheduler goroutine.
func New(sc *Scenario) (*World, error) {
	s := rt.New(sc.Seed)
	s.Stick = sc.Stick
	for _, x := range sc.Inactive {
		if x == "kv.iter" || x == "kv.tso" {
			// first engine call of scan workers and of the sequencer's goroutines: switching it off
			// would leave them unknown to the scheduler (older corpus files still list them)
			continue
		}
		s.Inactive[x] = true
	}
	if sc.Extra["tso_yield"] == 0 {
		// the points inside tso.Commit (between its loads and its compare-and-swaps) are reached by every
		// commit of the sequencer: only the classes about concurrent SetCurrentRevision calls switch them on
		s.Inactive["tso.commit"] = true
	}
	s.Forced = sc.Forced
	for k, v := range sc.Extra {
		if strings.HasPrefix(k, "stall:") {
			s.StallSites[k[6:]] = uint64(v)
		}
		if strings.HasPrefix(k, "stallrand:") {
			s.StallRand[k[10:]] = uint64(v)
		}
	}
	if os.Getenv("VERIF_TRACE") != "" {
		s.KeepTrace = true
	}
	InstallHooks(s)
	w := &World{Sc: sc, S: s, inflight: map[string]*Rec{}}
	klog.FatalHookForSim = w.onFatal
	inner, lazy, err := w.newEngine(sc.Engine)
	if err != nil {
		return nil, err
	}
	w.KV = simkv.NewWorld(s, inner, lazy)
	if (sc.Extra["tikv_get_fault"] > 0 || sc.Extra["tikv_scan_fault"] > 0) && sc.Extra["tikv_fault_armed_by_op"] == 0 {
		w.TiKVScanFaultArmed = true
	}
	for _, f := range sc.Plan {
		g := simkv.Fault{Op: f.Op, Class: f.Class, Who: f.Who, Node: f.Node, Nth: f.Nth, Effect: f.Effect}
		w.KV.Plan = append(w.KV.Plan, &g)
	}
	w.KV.Rates = sc.Rates
	w.KV.Free = sc.Free
	w.KV.TagFn = func(task string) interface{} {
		if r := w.inflight[task]; r != nil {
			return r
		}
		return nil
	}
	w.KV.CompKey = []byte(fmt.Sprintf("%s/%s", sc.Prefix, "compact_key"))
	if len(sc.Parts) > 0 && sc.Extra["tikv_regions"] == 0 {
		var borders [][]byte
		for _, p := range sc.Parts {
			b, _ := hex.DecodeString(p)
			borders = append(borders, b)
		}
		w.KV.Parts = func(start, end []byte) []storage.Partition {
			return cutPartitions(start, end, borders, sc.Extra["parts_shuffle"])
		}
	}
	s.StepHook = func(step uint64, t *rt.Task) {
		if w.SampleCommitted && len(w.Nodes) > 0 {
			w.ComSamples = append(w.ComSamples, w.Nodes[0].B.GetCurrentRevision())
		}
		if w.OnStep != nil {
			w.OnStep(step)
		}
	}
	return w, nil
}

// cutPartitions splits [start,end) at the borders that fall strictly inside.
func cutPartitions(start, end []byte, borders [][]byte, shuffle int64) []storage.Partition {
	var in [][]byte
	for _, b := range borders {
		if string(b) > string(start) && string(b) < string(end) {
			in = append(in, b)
		}
	}
	sort.Slice(in, func(i, j int) bool { return string(in[i]) < string(in[j]) })
	// an engine never reports an empty piece: drop duplicate borders
	uniq := in[:0]
	for i, b := range in {
		if i == 0 || string(b) != string(in[i-1]) {
			uniq = append(uniq, b)
		}
	}
	in = uniq
	var ps []storage.Partition
	cur := start
	for _, b := range in {
		ps = append(ps, storage.Partition{Start: cur, End: b})
		cur = b
	}
	ps = append(ps, storage.Partition{Start: cur, End: end})
	if shuffle != 0 && len(ps) > 1 {
		// deterministic rotation / reversal: "given in any order"
		switch shuffle % 3 {
		case 1:
			for i, j := 0, len(ps)-1; i < j; i, j = i+1, j-1 {
				ps[i], ps[j] = ps[j], ps[i]
			}
		case 2:
			k := int(shuffle) % len(ps)
			ps = append(ps[k:], ps[:k]...)
		}
	}
	return ps
}

// AddNode creates a node over the shared engine.
func (w *World) AddNode() *Node {
	n := w.addNodeWithIdentity(fmt.Sprintf("node-%d", len(w.Nodes)))
	// let the background goroutines reach their first cooperative point; the
	// retry loop registers at its first tick.
	w.S.Settle()
	w.S.Advance(1100 * time.Millisecond)
	return n
}

func (w *World) addNodeWithIdentity(identity string) *Node {
	id := len(w.Nodes)
	h := w.KV.Handle(id)
	m := NewRecMetrics(RealMetrics)
	m.BeforeEmit = func(name string) {
		// the first statement of the elector's OnStartedLeading callback, which client-go starts on a
		// goroutine of its own while the elector goes on to its first renewal: a scheduling point
		if name == "leader.election.success" {
			w.S.Yield("metric.leader.started")
		}
		// the first statement of WatcherHub.AddWatcher, before it takes the hub lock: whatever a watch
		// does before subscribing is separated from the subscription by a scheduling point
		if name == "watcher_hub.add_watcher" {
			w.S.Yield("metric.hub.add")
		}
	}
	var kv storage.KvStorage = h
	if w.Sc.MetricsKV {
		kv = kvmetrics.NewKvStorage(h, m)
	}
	cfg := backend.Config{
		Prefix:                  w.Sc.Prefix,
		Identity:                identity,
		SkippedPrefixes:         w.Sc.Skipped,
		WatchCacheSize:          w.Sc.WatchCache,
		EnableEtcdCompatibility: w.Sc.EtcdCompat,
	}
	w.S.SpawnNode = id
	b := backend.NewBackend(kv, cfg, m)
	n := &Node{ID: id, B: &yieldingBackend{Backend: b, w: w, node: id}, H: h, M: m, Cfg: cfg}
	w.Nodes = append(w.Nodes, n)
	return n
}

func (w *World) committed(node int) uint64 {
	if node < len(w.Nodes) {
		return w.Nodes[node].B.GetCurrentRevision()
	}
	return 0
}

// Start spawns the prologue and client tasks.
func (w *World) Start() {
	sc := w.Sc
	w.started = true
	if len(sc.Prologue) > 0 {
		cs := &clientState{id: -1, known: map[string][]uint64{}, tomb: map[string]uint64{}, busyNode: -1}
		w.S.Go("prologue", -1, func() {
			for i, op := range sc.Prologue {
				w.exec(cs, i, op)
			}
			w.proDone = true
		})
	} else {
		w.proDone = true
	}
	for ci := range sc.Clients {
		ci := ci
		cs := &clientState{id: ci, known: map[string][]uint64{}, tomb: map[string]uint64{}, busyNode: -1}
		w.clients = append(w.clients, cs)
		cs.task = w.S.Go(fmt.Sprintf("client%d", ci), -1, func() {
			w.S.YieldUntil("client.wait", func() bool { return w.proDone })
			for i, op := range sc.Clients[ci].Ops {
				w.exec(cs, i, op)
				if sc.Extra["lockstep"] != 0 {
					w.S.YieldIdle("client.lockstep") // strictly sequential: let the node go quiescent first
				} else {
					w.S.Yield("client.next")
				}
			}
			cs.finished = true
			w.done++
		})
	}
	w.S.Settle()
}

// sleepQuantum: when every unfinished client is deliberately pausing, the clock may move in
// larger hops (up to the earliest wake-up, at most a minute at a time).
func (w *World) sleepQuantum() time.Duration {
	var min time.Duration
	now := w.S.SimTime()
	any := false
	for _, cs := range w.clients {
		if cs.finished {
			continue
		}
		if cs.sleepUntil == 0 {
			return 0
		}
		rem := cs.sleepUntil - now
		if rem <= 0 {
			return 0
		}
		if !any || rem < min {
			min, any = rem, true
		}
	}
	if !any {
		return 0
	}
	if min > time.Minute {
		min = time.Minute
	}
	if w.FineClock && min > 200*time.Millisecond {
		// something with deadlines on the simulated clock is running (an elector renewing its lease):
		// a task that becomes eligible during a long hop would find its deadline already expired
		min = 200 * time.Millisecond
	}
	return min
}

// clientsSettled: every client has finished or is blocked inside a crashed node.
func (w *World) clientsSettled() bool {
	for _, cs := range w.clients {
		if cs.finished {
			continue
		}
		if cs.busyNode >= 0 && w.S.NodeDead(cs.busyNode) {
			continue
		}
		return false
	}
	return true
}

// Run drives the scheduler until all clients are done, the step cap is hit, or
// nothing has made progress for a long simulated time.
func (w *World) Run() {
	max := w.Sc.MaxSteps
	if max == 0 {
		max = 20000
	}
	w.lastProgress = w.S.SimTime()
	steps := 0
	doneSeen := -1
	for steps < max && !w.clientsSettled() {
		if w.done != doneSeen || w.progressed() {
			doneSeen = w.done
			w.lastProgress = w.S.SimTime()
		}
		if w.S.Step() {
			steps++
			continue
		}
		q := w.sleepQuantum()
		if q == 0 && w.S.SimTime()-w.lastProgress > 90*time.Second {
			w.Stuck = true
			w.StuckWhy = "clients blocked for 90 simulated seconds"
			return
		}
		if q == 0 {
			q = 500 * time.Millisecond
		} else {
			w.lastProgress = w.S.SimTime() + q // a deliberate pause is not a stall
		}
		w.S.Advance(q)
	}
	if !w.clientsSettled() {
		w.Stuck = true
		w.StuckWhy = fmt.Sprintf("step cap %d reached", max)
	}
}

func (w *World) progressed() bool {
	n := w.doneRecs
	if n != w.progressMark {
		w.progressMark = n
		return true
	}
	return false
}

// Idle runs until no task is eligible, then lets d of simulated time pass in
// small increments (running whatever becomes eligible), and settles again.
func (w *World) Idle(d time.Duration, maxSteps int) int {
	n := w.S.Quiesce(maxSteps)
	for el := time.Duration(0); el < d; el += 500 * time.Millisecond {
		w.S.Advance(500 * time.Millisecond)
		n += w.S.Quiesce(maxSteps)
	}
	return n
}

// RunTask runs f as a fresh client task to completion (used for probes).
func (w *World) RunTask(name string, node int, maxSteps int, f func()) bool {
	finished := false
	w.S.Go(name, -1, func() { f(); finished = true })
	w.S.Settle()
	for i := 0; i < maxSteps && !finished; i++ {
		if !w.S.Step() {
			w.S.Advance(500 * time.Millisecond)
		}
	}
	return finished
}

// DrainWatchers collects whatever is left in every watch channel and learns
// whether the channel has been closed.
func (w *World) DrainWatchers() {
	for _, wa := range w.Watchers {
		if wa.Ch == nil || wa.Closed {
			continue
		}
		wa.stop = true
		for tries := 0; tries < 3; {
			select {
			case evs, ok := <-wa.Ch:
				if !ok {
					wa.Closed = true
					wa.ClosedAt = w.S.StepNo()
					tries = 99
					break
				}
				w.recordEvents(wa, evs)
				tries = 0
			default:
				w.S.Settle()
				tries++
			}
		}
	}
}

func (w *World) recordEvents(wa *Watcher, evs []*proto.Event) {
	for _, e := range evs {
		ev := Ev{Type: e.Type.String(), Rev: e.Revision, Step: w.S.StepNo(), Batch: wa.Batches}
		if e.Kv != nil {
			ev.Key, ev.Val, ev.KvRev = string(e.Kv.Key), string(e.Kv.Value), e.Kv.Revision
		}
		wa.Events = append(wa.Events, ev)
	}
	wa.Batches++
}

// Teardown cancels watches, kills the background loops and closes the engine.
func (w *World) Teardown() {
	for _, wa := range w.Watchers {
		wa.stop = true
		if wa.Cancel != nil {
			wa.Cancel()
		}
	}
	w.S.Settle()
	// let cancellation propagate (hub.delete tasks)
	w.S.Quiesce(2000)
	kill := map[string]bool{"seq.idle": true, "hub.recv": true, "retry.tick": true, "hub.delete": true,
		"seq.commit": true, "seq.committed": true, "seq.cache": true, "seq.bcast": true, "seq.sent": true, "consume": true, "client.wait": true}
	w.S.KillParked(kill)
	UninstallHooks()
	for _, c := range w.closers {
		c()
	}
}

// yieldingBackend makes SetCurrentRevision a cooperative point: whoever initialises or adopts a
// revision (a new leader's OnStartedLeading, a follower's revision sync) can be interleaved with
// requests right before the revision is set.
type yieldingBackend struct {
	backend.Backend
	w    *World
	node int
}

func (y *yieldingBackend) SetCurrentRevision(rev uint64) {
	// never park the scheduler goroutine itself (harness set-up calls)
	if !y.w.S.IsRoot() && (y.w.S.Current() != nil || y.w.YieldOnSetRevision) {
		y.w.S.Yield("backend.setrev", y.node)
	}
	y.Backend.SetCurrentRevision(rev)
}
