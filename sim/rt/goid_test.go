package rt

import (
	"sync"
	"testing"
)

func TestGoidFastMatchesSlow(t *testing.T) {
	var wg sync.WaitGroup
	for i := 0; i < 64; i++ {
		wg.Add(1)
		go func() {
			defer wg.Done()
			for j := 0; j < 100; j++ {
				if a, b := goid(), goidSlow(); a != b || a == 0 {
					t.Errorf("goid %d, slow %d", a, b)
					return
				}
			}
		}()
	}
	wg.Wait()
}

func BenchmarkGoid(b *testing.B) {
	for i := 0; i < b.N; i++ {
		goid()
	}
}

func BenchmarkGoidSlow(b *testing.B) {
	for i := 0; i < b.N; i++ {
		goidSlow()
	}
}

func TestGoidCalibrated(t *testing.T) {
	t.Logf("goid offset %d", goidOffForTest())
}
