package props

import (
	"bytes"
	"context"
	"encoding/json"
	"fmt"
	"math/rand"
	"os"
	"sort"
	"sync"
	"sync/atomic"
	"testing"
	"time"

	proto "github.com/kubewharf/kubebrain-client/api/v2rpc"

	"github.com/kubewharf/kubebrain/pkg/backend"
	"github.com/kubewharf/kubebrain/pkg/metrics"
	"github.com/kubewharf/kubebrain/pkg/server"
	"github.com/kubewharf/kubebrain/pkg/server/etcd"
	"github.com/kubewharf/kubebrain/pkg/server/service/leader"
	"github.com/kubewharf/kubebrain/pkg/storage"
	pb "go.etcd.io/etcd/api/v3/etcdserverpb"

	kbprom "github.com/kubewharf/kubebrain/pkg/metrics/prometheus"

	"verif/sim/rt"
	"verif/sim/simkv"
	"verif/sim/world"
)

// C19 — concurrent requests are free of data races.
//
// The token scheduler orders every cross-task access through its hand-off, so under it the
// race detector could never fire. This property therefore runs the same kind of seeded
// workloads with real threads, no bubble and no hooks installed, in a binary built with -race.
// The workload replays from its seed; the interleaving does not.

// faultKV injects unknown-outcome results at the storage boundary so that the retry path runs.
type faultKV struct {
	storage.KvStorage
	mu   sync.Mutex
	rng  *rand.Rand
	rate float64
}

type faultBatch struct {
	storage.BatchWrite
	f *faultKV
}

func (f *faultKV) BeginBatchWrite() storage.BatchWrite {
	return &faultBatch{BatchWrite: f.KvStorage.BeginBatchWrite(), f: f}
}

func (b *faultBatch) Commit(ctx context.Context) error {
	err := b.BatchWrite.Commit(ctx)
	b.f.mu.Lock()
	hit := b.f.rng.Float64() < b.f.rate
	b.f.mu.Unlock()
	if err == nil && hit {
		return storage.NewErrUncertainResult(context.DeadlineExceeded)
	}
	return err
}

type raceScenario struct {
	Seed    uint64  `json:"seed"`
	Engine  string  `json:"engine"`
	Workers int     `json:"workers"`
	Ops     int     `json:"ops"`
	Keys    int     `json:"keys"`
	Fault   float64 `json:"fault"`
	Cache   int     `json:"cache"`
	Millis  int     `json:"millis"`
	TTL     int     `json:"event_ttl_s,omitempty"`        // TTL of Event records (seconds): expiry timers fire during the run
	Lazy    int     `json:"lazy_watchers,omitempty"`      // watchers that never read: the hub has to drop them
	Prom    bool    `json:"real_prometheus,omitempty"`    // the production metrics client on a registry of this run's own
	Parts   bool    `json:"partitioned_engine,omitempty"` // the engine reports several partitions: scans and compactions run one worker per partition
	EtcdAPI bool    `json:"etcd_watch_server,omitempty"`  // a real server.NewServer over the backend, elected through the real lock: watches also go through the etcd watch server
	Skips   bool    `json:"skipped_prefixes,omitempty"`   // the node is configured with prefixes that compaction leaves alone
	Follow  bool    `json:"follower_reads,omitempty"`     // a second node over the same engine serves reads, adopting the first one's revision before each
}

// partKV makes an engine report three partitions, split at the index records of two of the workloads' keys
// (what an engine that splits at existing keys can produce): the scanner then runs one worker per partition.
type partKV struct {
	storage.KvStorage
}

func (p *partKV) GetPartitions(ctx context.Context, start, end []byte) ([]storage.Partition, error) {
	b1 := simkv.EncodeKey([]byte(prefix+"/g2/k1"), 0)
	b2 := simkv.EncodeKey([]byte(prefix+"/k2"), 0)
	var out []storage.Partition
	cur := start
	for _, b := range [][]byte{b1, b2} {
		if bytes.Compare(b, cur) > 0 && bytes.Compare(b, end) < 0 {
			out = append(out, storage.Partition{Start: cur, End: b})
			cur = b
		}
	}
	return append(out, storage.Partition{Start: cur, End: end}), nil
}

func genRace(r *rt.Rand, idx int) raceScenario {
	sc := raceScenario{Seed: r.Uint64(), Engine: "memkv", Workers: 8 + r.Intn(24), Ops: 150 + r.Intn(400), Keys: 2 + r.Intn(6), Cache: []int{0, 8, 64}[r.Intn(3)], Millis: 1500}
	if idx%4 == 3 {
		sc.Engine = "badger"
		sc.Ops = 60 + r.Intn(100)
	}
	if r.Chance(0.6) {
		sc.Fault = 0.02 + 0.08*r.Float64()
	}
	switch idx % 6 {
	case 1:
		// Event records expire while requests are served (memkv timers)
		sc.Engine, sc.TTL, sc.Millis = "memkv", 1, 3000
		sc.Ops = 3000
	case 4:
		// subscribers that never read are dropped by the hub (10 000 batches buffered) while others come and go
		sc.Engine, sc.Lazy, sc.Fault = "memkv", 20+r.Intn(30), 0
		sc.Workers, sc.Ops, sc.Millis = 6+r.Intn(6), 7000, 20000
	}
	// (one run per worker process: no goroutine of an earlier run is alive when the registry is replaced)
	sc.Prom = idx%2 == 0
	sc.Skips = idx%3 == 1
	if idx%5 == 3 && sc.Lazy == 0 && sc.TTL == 0 {
		sc.EtcdAPI, sc.Fault = true, 0 // (no storage faults: a failed lock renewal ends the process)
	}
	sc.Parts = idx%4 == 1 && sc.Engine == "memkv"
	if idx%6 == 2 {
		sc.Engine, sc.Follow = "memkv", true
	}
	return sc
}

func runRace(sc raceScenario) (ops int64) {
	w := &world.World{}
	inner, _, err := w.NewEngineFor(sc.Engine)
	if err != nil {
		fmt.Fprintln(os.Stderr, "engine:", err)
		os.Exit(2)
	}
	// the backend's loops outlive the workload and cannot be stopped: never close the engine under them
	defer w.AbandonEngines()
	var kv storage.KvStorage = inner
	if sc.Fault > 0 {
		kv = &faultKV{KvStorage: inner, rng: rand.New(rand.NewSource(int64(sc.Seed))), rate: sc.Fault}
	}
	if sc.Parts {
		kv = &partKV{KvStorage: kv}
	}
	if sc.TTL > 0 {
		defer backend.SetEventsTTLForSim(backend.SetEventsTTLForSim(int64(sc.TTL)))
	}
	var prod metrics.Metrics
	if sc.Prom {
		kbprom.ResetRegistryForSim()
		prod = kbprom.NewMetrics()
	}
	rm := world.NewRecMetrics(prod)
	defer func() {
		fmt.Fprintf(os.Stderr, "\nRACE-RUN-INFO slow watchers dropped: %.0f, watchers added: %.0f\n", rm.Counter("drop.slow.watcher"), rm.Counter("watcher_hub.add_watcher"))
		if sc.EtcdAPI {
			fmt.Fprintf(os.Stderr, "RACE-RUN-INFO etcd watches: %.0f, refused by the backend: %.0f, cancelled: %.0f\n", rm.Counter("watch.watch"), rm.Counter("watch.backend.err"), rm.Counter("watch.cancel"))
		}
	}()
	cfg := backend.Config{Prefix: prefix, Identity: "race", WatchCacheSize: sc.Cache, EnableEtcdCompatibility: true}
	if sc.Skips {
		cfg.SkippedPrefixes = []string{prefix + "/skip", prefix + "/g1", "/zzz"}
	}
	b := backend.NewBackend(kv, cfg, rm)
	b.SetCurrentRevision(1000)
	var es *etcd.RPCServer
	if sc.EtcdAPI {
		srv := server.NewServer(b, rm, server.Config{})
		var le leader.LeaderElection
		es, _, le = server.HandlersForSim(srv) // (brain.New has already started the node's campaign)
		for i := 0; i < 500 && !le.IsLeader(); i++ {
			time.Sleep(10 * time.Millisecond)
		}
		if !le.IsLeader() {
			fmt.Fprintln(os.Stderr, "race workload: the node did not become leader")
			os.Exit(2)
		}
	}
	lead := b
	var follower backend.Backend
	if sc.Follow {
		follower = backend.NewBackend(kv, backend.Config{Prefix: prefix, Identity: "race-follower", WatchCacheSize: sc.Cache, EnableEtcdCompatibility: true}, rm)
		follower.SetCurrentRevision(1000)
	}
	ctx, cancelAll := context.WithCancel(context.Background())
	defer cancelAll()
	if sc.Lazy > 0 {
		// never read; registered one after the other, so that the hub drops them at different moments
		go func() {
			for i := 0; i < sc.Lazy; i++ {
				b.Watch(ctx, prefix+"/", 0)
				time.Sleep(40 * time.Millisecond)
			}
		}()
	}
	deadline := time.Now().Add(time.Duration(sc.Millis) * time.Millisecond)
	var wg sync.WaitGroup
	var n int64
	for g := 0; g < sc.Workers; g++ {
		wg.Add(1)
		go func(g int) {
			defer wg.Done()
			r := rand.New(rand.NewSource(int64(sc.Seed) + int64(g)*7919))
			known := map[string]uint64{}
			var cancels []context.CancelFunc
			for i := 0; i < sc.Ops && time.Now().Before(deadline); i++ {
				key := fmt.Sprintf("%s/k%d", prefix, r.Intn(sc.Keys))
				if r.Intn(8) == 0 {
					key = fmt.Sprintf("%s/events/ns/e%d", prefix, r.Intn(2))
				}
				atomic.AddInt64(&n, 1)
				x := r.Intn(100)
				b := lead
				if follower != nil && g%2 == 1 {
					// a follower read: the node adopts the leader's revision in the reader's goroutine, then reads
					b = follower
					b.SetCurrentRevision(lead.GetCurrentRevision())
					x = 57 + r.Intn(43)
					if x >= 85 && x < 89 {
						x = 60
					}
				}
				if sc.Lazy > 0 && x >= 57 && x < 93 {
					x = 20 + r.Intn(25) // mostly updates: every successful write is one more batch in the lazy watchers' buffers
				}
				if sc.Lazy > 0 {
					key = fmt.Sprintf("%s/g%d/k%d", prefix, g, r.Intn(3)) // private keys: the guarded writes succeed
				}
				if sc.TTL > 0 && r.Intn(2) == 0 {
					key = fmt.Sprintf("%s/events/ns/e%d", prefix, r.Intn(40))
				}
				switch {
				case x < 18:
					resp, err := b.Create(ctx, &proto.CreateRequest{Key: []byte(key), Value: []byte(fmt.Sprintf("v%d.%d", g, i))})
					if err == nil && resp.Succeeded {
						known[key] = resp.Header.Revision
					}
				case x < 45:
					resp, err := b.Update(ctx, &proto.UpdateRequest{Kv: &proto.KeyValue{Key: []byte(key), Value: []byte(fmt.Sprintf("v%d.%d", g, i)), Revision: known[key]}})
					if err == nil {
						if resp.Succeeded {
							known[key] = resp.Header.Revision
						} else if resp.Kv != nil {
							known[key] = resp.Kv.Revision
						}
					}
				case x < 57:
					resp, err := b.Delete(ctx, &proto.DeleteRequest{Key: []byte(key), Revision: known[key]})
					if err == nil && resp.Succeeded {
						delete(known, key)
					}
				case x < 70:
					resp, err := b.Get(ctx, &proto.GetRequest{Key: []byte(key)})
					if err == nil && resp.Kv != nil {
						known[key] = resp.Kv.Revision
					}
				case x < 82:
					b.List(ctx, &proto.RangeRequest{Key: []byte(prefix + "/"), End: []byte(prefix + "0"), Limit: int64(r.Intn(4))})
				case x < 85:
					b.Count(ctx, &proto.CountRequest{Key: []byte(prefix + "/"), End: []byte(prefix + "0")})
				case x < 89:
					cur := b.GetCurrentRevision()
					if cur > 3 {
						b.Compact(ctx, cur-uint64(r.Intn(3)))
					}
				case x < 93:
					ch, err := b.ListByStream(ctx, []byte("\x57\xfb\x80\x8b"+prefix+"/$\x00\x00\x00\x00\x00\x00\x00\x00"), []byte("\x57\xfb\x80\x8b"+prefix+"0$\x00\x00\x00\x00\x00\x00\x00\x00"), 0)
					if err == nil {
						for range ch {
						}
					}
				default:
					if es != nil && r.Intn(2) == 0 {
						// through the etcd watch server: often from a revision that is no longer cached, so that the
						// watch's own goroutine cancels it while the request goroutine is still registering it
						st := world.NewEtcdWatchStream()
						go es.Watch(st)
						start := int64(b.GetCurrentRevision()) - int64(r.Intn(40))
						st.Reqs <- &pb.WatchRequest{RequestUnion: &pb.WatchRequest_CreateRequest{CreateRequest: &pb.WatchCreateRequest{Key: []byte(prefix + "/"), RangeEnd: []byte(prefix + "0"), StartRevision: start}}}
						cancels = append(cancels, st.Cancel)
						if len(cancels) > 3 {
							cancels[0]()
							cancels = cancels[1:]
						}
						break
					}
					wctx, cancel := context.WithCancel(ctx)
					start := uint64(0)
					switch r.Intn(3) {
					case 0:
						start = b.GetCurrentRevision()
					case 1:
						// a little back: replayed from the event cache while the sequencer goes on filling it
						if cur := b.GetCurrentRevision(); cur > 1004 {
							start = cur - uint64(r.Intn(4))
						}
					}
					ch, err := b.Watch(wctx, prefix+"/", start)
					if err != nil {
						cancel()
						break
					}
					cancels = append(cancels, cancel)
					go func() {
						for range ch {
						}
					}()
					if len(cancels) > 3 {
						cancels[0]()
						cancels = cancels[1:]
					}
				}
			}
			for _, c := range cancels {
				c()
			}
		}(g)
	}
	wg.Wait()
	// let the retry loop (1 s tick, 5 s retry interval) run at least once over what the faults queued
	if sc.Fault > 0 {
		time.Sleep(6500 * time.Millisecond)
	}
	return atomic.LoadInt64(&n)
}

// runFreeRevisions: free-running writers (real threads, no bubble, no hooks) on one node; what is
// observed is the revision in the header of every successful write. The token scheduler can only
// switch tasks at cooperative points, so a revision allocator that is not atomic between two of them
// is invisible to the simulation proper; here the interleaving is the Go runtime's (the workload
// replays from its seed, the interleaving does not).
func runFreeRevisions(sc raceScenario) (ops int64, dups []uint64, nonMono []string, panics []string) {
	w := &world.World{}
	inner, _, err := w.NewEngineFor("memkv")
	if err != nil {
		fmt.Fprintln(os.Stderr, "engine:", err)
		os.Exit(2)
	}
	defer w.AbandonEngines()
	b := backend.NewBackend(inner, backend.Config{Prefix: prefix, Identity: "free", WatchCacheSize: sc.Cache, EnableEtcdCompatibility: true}, world.NewRecMetrics(nil))
	b.SetCurrentRevision(1000)
	ctx := context.Background()
	var mu sync.Mutex
	var all []uint64
	var wg sync.WaitGroup
	start := make(chan struct{})
	var n int64
	for g := 0; g < sc.Workers; g++ {
		wg.Add(1)
		go func(g int) {
			defer wg.Done()
			defer func() {
				if x := recover(); x != nil {
					mu.Lock()
					panics = append(panics, fmt.Sprint(x))
					mu.Unlock()
				}
			}()
			r := rand.New(rand.NewSource(int64(sc.Seed) + int64(g)*104729))
			known := map[string]uint64{}
			var mine []uint64
			<-start
			for i := 0; i < sc.Ops; i++ {
				key := fmt.Sprintf("%s/g%d/k%d", prefix, g, r.Intn(sc.Keys))
				atomic.AddInt64(&n, 1)
				rev, had := known[key]
				switch {
				case !had:
					resp, err := b.Create(ctx, &proto.CreateRequest{Key: []byte(key), Value: []byte("c")})
					if err == nil && resp.Succeeded {
						known[key] = resp.Header.Revision
						mine = append(mine, resp.Header.Revision)
					}
				case r.Intn(4) == 0:
					resp, err := b.Delete(ctx, &proto.DeleteRequest{Key: []byte(key), Revision: rev})
					if err == nil && resp.Succeeded {
						delete(known, key)
						mine = append(mine, resp.Header.Revision)
					}
				default:
					resp, err := b.Update(ctx, &proto.UpdateRequest{Kv: &proto.KeyValue{Key: []byte(key), Value: []byte("u"), Revision: rev}})
					if err == nil && resp.Succeeded {
						known[key] = resp.Header.Revision
						mine = append(mine, resp.Header.Revision)
					}
				}
			}
			mu.Lock()
			for i := 1; i < len(mine); i++ {
				if mine[i] <= mine[i-1] && len(nonMono) < 5 {
					nonMono = append(nonMono, fmt.Sprintf("writer %d: revision %d acknowledged after revision %d", g, mine[i], mine[i-1]))
				}
			}
			all = append(all, mine...)
			mu.Unlock()
		}(g)
	}
	close(start)
	wg.Wait()
	sort.Slice(all, func(i, j int) bool { return all[i] < all[j] })
	for i := 1; i < len(all); i++ {
		if all[i] == all[i-1] && (len(dups) == 0 || dups[len(dups)-1] != all[i]) && len(dups) < 10 {
			dups = append(dups, all[i])
		}
	}
	return atomic.LoadInt64(&n), dups, nonMono, panics
}

// TestRace executes seeded free-running workloads; the race detector reports to stderr.
func TestRace(t *testing.T) {
	if os.Getenv("VERIF_RACE") == "" {
		t.Skip("VERIF_RACE not set")
	}
	seed := uint64(envInt("VERIF_SEED", 1))
	from, to := envInt("VERIF_FROM", 0), envInt("VERIF_TO", 1)
	budget := time.Duration(envInt("VERIF_BUDGET_S", 3600)) * time.Second
	start := time.Now()
	type runRec struct {
		Index    int          `json:"index"`
		Scenario raceScenario `json:"scenario"`
		Ops      int64        `json:"ops"`
		Dups     []uint64     `json:"duplicate_revisions,omitempty"`
		NonMono  []string     `json:"non_monotonic,omitempty"`
		Panics   []string     `json:"panics,omitempty"`
	}
	freeRevs := os.Getenv("VERIF_FREE_MODE") == "revisions"
	var recs []runRec
	for idx := from; idx < to && time.Since(start) < budget; idx++ {
		var sc raceScenario
		if rp := os.Getenv("VERIF_REPLAY_SC"); rp != "" {
			json.Unmarshal([]byte(rp), &sc)
		} else {
			sc = genRace(rt.NewRand(rt.Mix(rt.MixStr(seed, "C19"), uint64(idx))), idx)
		}
		if freeRevs && os.Getenv("VERIF_REPLAY_SC") == "" {
			r := rt.NewRand(rt.Mix(rt.MixStr(seed, "C02-free"), uint64(idx)))
			sc = raceScenario{Seed: r.Uint64(), Engine: "memkv", Workers: 4 + r.Intn(13), Ops: 2000 + r.Intn(4000), Keys: 20 + r.Intn(80), Cache: []int{0, 64}[r.Intn(2)]}
		}
		b, _ := json.Marshal(sc)
		fmt.Fprintf(os.Stderr, "\nRACE-RUN-BEGIN %d %s\n", idx, b)
		if freeRevs {
			ops, dups, nonMono, panics := runFreeRevisions(sc)
			fmt.Fprintf(os.Stderr, "\nRACE-RUN-END %d ops=%d\n", idx, ops)
			recs = append(recs, runRec{idx, sc, ops, dups, nonMono, panics})
			continue
		}
		ops := runRace(sc)
		fmt.Fprintf(os.Stderr, "\nRACE-RUN-END %d ops=%d\n", idx, ops)
		recs = append(recs, runRec{Index: idx, Scenario: sc, Ops: ops})
	}
	if out := os.Getenv("VERIF_OUT"); out != "" {
		b, _ := json.Marshal(recs)
		os.WriteFile(out, b, 0o644)
	}
}
