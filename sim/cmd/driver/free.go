package main

import (
	"context"
	"encoding/json"
	"fmt"
	"os"
	"os/exec"
	"strings"
	"sync"
	"time"
)

// Free-running phase of C02. The token scheduler switches tasks at cooperative points only, so code
// that is atomic between two of them in the simulation (the revision allocator) is never interleaved
// there. After the simulated batch, C02 therefore runs seeded writer workloads with real threads
// (no bubble, no hooks, the ordinary test binary) and checks what does not need a schedule to be
// judged: every successful write carries a revision no other write carries, and one client's
// successive writes carry increasing revisions. As for C19, the workload replays from its seed, the
// interleaving does not.

type freeRec struct {
	Index    int             `json:"index"`
	Scenario json.RawMessage `json:"scenario"`
	Ops      int64           `json:"ops"`
	Dups     []uint64        `json:"duplicate_revisions"`
	NonMono  []string        `json:"non_monotonic"`
	Panics   []string        `json:"panics"`
}

type freeStats struct {
	Runs   int
	Ops    int64
	WallS  float64
	Infra  []string
	Failed []failure
}

func runFreeOnce(bin string, seed uint64, idx int, replaySc string) ([]freeRec, error) {
	out, err := os.CreateTemp("", "verif-free-*.json")
	if err != nil {
		return nil, err
	}
	out.Close()
	defer os.Remove(out.Name())
	ctx, cancel := context.WithTimeout(context.Background(), 90*time.Second)
	defer cancel()
	cmd := exec.CommandContext(ctx, bin, "-test.run", "^TestRace$", "-test.timeout", "0")
	cmd.Env = append(os.Environ(), "VERIF_RACE=1", "VERIF_FREE_MODE=revisions", fmt.Sprintf("VERIF_SEED=%d", seed),
		fmt.Sprintf("VERIF_FROM=%d", idx), fmt.Sprintf("VERIF_TO=%d", idx+1), "VERIF_OUT="+out.Name(), "GOMAXPROCS=8")
	if replaySc != "" {
		cmd.Env = append(cmd.Env, "VERIF_REPLAY_SC="+replaySc)
	}
	ob, rerr := cmd.CombinedOutput()
	b, _ := os.ReadFile(out.Name())
	var recs []freeRec
	if rerr != nil || json.Unmarshal(b, &recs) != nil {
		s := string(ob)
		if len(s) > 2500 {
			s = s[len(s)-2500:]
		}
		return nil, fmt.Errorf("free-running worker run %d: %v\n%s", idx, rerr, s)
	}
	return recs, nil
}

func freeFailures(prop string, recs []freeRec) []failure {
	var out []failure
	for _, r := range recs {
		if len(r.Dups) > 0 {
			out = append(out, failure{RunIndex: r.Index, Scenario: r.Scenario, Violation: violation{Prop: prop, Rule: "free-running-duplicate-revision", Sig: "free-running-duplicate-revision",
				Detail: fmt.Sprintf("free-running writers (real threads): %d revisions were each carried by two successful writes, e.g. %v", len(r.Dups), r.Dups)}})
		}
		if len(r.NonMono) > 0 {
			out = append(out, failure{RunIndex: r.Index, Scenario: r.Scenario, Violation: violation{Prop: prop, Rule: "free-running-revision-order", Sig: "free-running-revision-order",
				Detail: "free-running writers (real threads): " + strings.Join(r.NonMono, "; ")}})
		}
		if len(r.Panics) > 0 {
			out = append(out, failure{RunIndex: r.Index, Scenario: r.Scenario, Violation: violation{Prop: prop, Rule: "free-running-writer-panicked", Sig: "free-running-writer-panicked",
				Detail: "free-running writers (real threads): a write request panicked: " + r.Panics[0]}})
		}
	}
	return out
}

func freePhase(bin, prop string, seed uint64, budget time.Duration) freeStats {
	var st freeStats
	start := time.Now()
	deadline := start.Add(budget)
	var mu sync.Mutex
	next := 0
	var wg sync.WaitGroup
	for wk := 0; wk < 4; wk++ {
		wg.Add(1)
		go func() {
			defer wg.Done()
			for {
				mu.Lock()
				if time.Now().After(deadline) || len(st.Infra) > 0 || len(st.Failed) > 0 {
					mu.Unlock()
					return
				}
				idx := next
				next++
				mu.Unlock()
				recs, err := runFreeOnce(bin, seed, idx, "")
				mu.Lock()
				if err != nil {
					st.Infra = append(st.Infra, err.Error())
					mu.Unlock()
					return
				}
				for _, r := range recs {
					st.Runs++
					st.Ops += r.Ops
				}
				st.Failed = append(st.Failed, freeFailures(prop, recs)...)
				mu.Unlock()
			}
		}()
	}
	wg.Wait()
	st.WallS = time.Since(start).Seconds()
	return st
}

// freeReplay re-runs the workload of a free-running violation a few times (the interleaving differs each time).
func freeReplay(bin, prop, path string, scenario json.RawMessage, rule string) int {
	for try := 0; try < 12; try++ {
		recs, err := runFreeOnce(bin, 0, 0, string(scenario))
		if err != nil {
			fmt.Fprintln(os.Stderr, err)
			return 2
		}
		for _, f := range freeFailures(prop, recs) {
			fmt.Printf("  rule=%s: %s\n", f.Violation.Rule, f.Violation.Detail)
			if f.Violation.Rule == rule {
				fmt.Printf("reproduced at attempt %d of 12 (free-running workload: the interleaving is the Go runtime's)\n", try+1)
				fmt.Printf("VIOLATION property=%s replay=%s\n", prop, path)
				return 1
			}
		}
	}
	fmt.Println("not reproduced in 12 attempts")
	return 0
}
