package props

import (
	"encoding/binary"
	"fmt"
	"sort"

	"verif/sim/model"
	"verif/sim/rt"
	"verif/sim/simkv"
	"verif/sim/world"
)

// C08 — the compaction floor only rises, and range reads below it are refused.

func genC08(r *rt.Rand, tier string, idx int) *world.Scenario {
	sc := &world.Scenario{Prefix: prefix, InitRev: pickInitRev(r), Seed: r.Uint64(), EtcdCompat: true, Engine: "memkv"}
	if x := r.Intn(10); x == 0 {
		sc.Engine = "badger"
	} else if x == 1 {
		sc.Engine = "tikv"
	}
	concurrent := idx%3 == 2
	sc.Class = "sequential-compaction-requests"
	if idx%20 == 13 {
		// configurations in which compaction has little or nothing to remove: prefixes it leaves alone, up to
		// the node's whole range - an accepted compaction still raises the floor
		sc.Skipped = [][]string{{prefix}, {prefix + "/a", prefix + "/b", prefix + "/c"}, {prefix + "/a"}}[r.Intn(3)]
		defer func() { sc.Class += "+skipped-prefixes" }()
	}
	keys := []string{prefix + "/a", prefix + "/a/b", prefix + "/b", prefix + "/c"}
	span := 8 + r.Intn(25)
	revPool := func() world.Rev {
		switch r.Weighted(50, 10, 15, 10, 15) {
		case 0:
			return world.Rev{M: "init", N: int64(r.Intn(span + 4))}
		case 1:
			return world.Rev{M: "zero"}
		case 2:
			return world.Rev{M: "committed", N: -int64(r.Intn(5))}
		case 3:
			return world.Rev{M: "committed", N: int64(1 + r.Intn(5))} // above current
		}
		return world.Rev{M: "hdrminus", N: int64(r.Intn(6))}
	}
	mk := func(c, n int) world.Client {
		var cl world.Client
		for i := 0; i < n; i++ {
			k := keys[r.Intn(len(keys))]
			v := fmt.Sprintf("v%d.%d", c, i)
			switch r.Weighted(22, 22, 10, 16, 14, 8, 8) {
			case 0:
				cl.Ops = append(cl.Ops, world.Op{K: "create", Key: k, Val: v})
			case 1:
				cl.Ops = append(cl.Ops, world.Op{K: "update", Key: k, Val: v, Rev: world.Rev{M: "known"}})
			case 2:
				cl.Ops = append(cl.Ops, world.Op{K: "delete", Key: k, Rev: world.Rev{M: "known"}})
			case 3:
				cl.Ops = append(cl.Ops, world.Op{K: "compact", Rev: revPool()})
			case 4:
				lim := int64(0)
				if r.Chance(0.4) {
					lim = int64(1 + r.Intn(3))
				}
				if r.Chance(0.25) {
					// the range that holds exactly one key, as clients ask for a single object through the range API
					cl.Ops = append(cl.Ops, world.Op{K: "list", Key: k, End: k + "\x00", Rev: revPool(), Limit: lim})
				} else {
					cl.Ops = append(cl.Ops, world.Op{K: "list", Key: prefix + "/", End: prefix + "0", Rev: revPool(), Limit: lim})
				}
			case 5:
				cl.Ops = append(cl.Ops, world.Op{K: "stream", Key: prefix + "/", End: prefix + "0", Rev: revPool()})
			case 6:
				cl.Ops = append(cl.Ops, world.Op{K: "count", Key: prefix + "/", End: prefix + "0"})
			}
			if !concurrent && r.Chance(0.3) {
				cl.Ops = append(cl.Ops, world.Op{K: "waitcommitted"})
			}
		}
		return cl
	}
	if !concurrent {
		sc.Clients = []world.Client{mk(0, span+10)}
	} else {
		sc.Class = "racing-compactions-and-reads"
		sc.Inactive = swarmSites(r, "kv.get", "kv.commit", "kv.parts")
		if r.Chance(0.4) {
			// whoever is about to open an iterator waits a while: a read that has passed its floor check then
			// sees a whole compaction go by before it scans
			if sc.Extra == nil {
				sc.Extra = map[string]int64{}
			}
			sc.Extra["stall:kv.iter"] = int64(20 + r.Intn(300))
		}
		for c := 0; c < 2+r.Intn(2); c++ {
			sc.Clients = append(sc.Clients, mk(c, span/2+5))
		}
	}
	if idx%5 == 0 && !concurrent {
		// a second node over the same store that lags behind (it adopted the leader's revision for a read a
		// while ago): what it reads at its own, older revision is below a floor the leader has stored since
		sc.Class += "+lagging-node"
		if sc.Extra == nil {
			sc.Extra = map[string]int64{}
		}
		sc.Extra["nodes"] = 2
		ops := sc.Clients[0].Ops
		at := 2 + r.Intn(len(ops)/2+1)
		if at > len(ops) {
			at = len(ops)
		}
		head := append(append([]world.Op{}, ops[:at]...), world.Op{K: "waitcommitted"}, world.Op{K: "followersync", Node: 1, W: 0})
		tail := append([]world.Op{}, ops[at:]...)
		tail = append(tail, world.Op{K: "waitcommitted"}, world.Op{K: "compact", Rev: world.Rev{M: "zero"}})
		if r.Chance(0.5) {
			// the lagging node serves a compaction request itself (a deposed leader's periodic compaction, a
			// client talking to the wrong node): at its own revision or at an older one, both below the floor
			tail = append(tail, world.Op{K: "compact", Rev: []world.Rev{{M: "zero"}, {M: "init", N: int64(1 + r.Intn(3))}}[r.Intn(2)], Node: 1})
			tail = append(tail, world.Op{K: "list", Key: prefix + "/", End: prefix + "0", Rev: world.Rev{M: "hdrminus", N: int64(1 + r.Intn(3))}})
		}
		for i := 0; i < 2+r.Intn(3); i++ {
			switch r.Intn(3) {
			case 0:
				tail = append(tail, world.Op{K: "list", Key: prefix + "/", End: prefix + "0", Node: 1})
			case 1:
				tail = append(tail, world.Op{K: "count", Key: prefix + "/", End: prefix + "0", Node: 1})
			case 2:
				tail = append(tail, world.Op{K: "stream", Key: prefix + "/", End: prefix + "0", Node: 1})
			}
		}
		sc.Clients[0].Ops = append(head, tail...)
	}
	if idx%5 == 1 {
		// a write whose outcome is unknown stays in the retry queue for a while: compactions requested
		// meanwhile are clamped below it, and what they answer must be the floor they stored
		sc.Class += "+pending-unknown-outcome"
		sc.Plan = append(sc.Plan, &simkv.Fault{Op: "commit", Class: "data", Who: "client", Nth: 1 + r.Intn(6), Effect: []string{"uncertain-applied", "uncertain-lost"}[r.Intn(2)]})
		if sc.Extra == nil {
			sc.Extra = map[string]int64{}
		}
		sc.Extra["keep_faults"] = 1
	}
	if idx%5 == 3 {
		// writes of the compaction record are lost with an unknown outcome (several in a row): a request
		// that is answered with success must have stored its floor
		sc.Class += "+lost-record-writes"
		sc.Rates.CommitUncL = 0.3 + 0.5*r.Float64()
		sc.Rates.OnlyClass = "compact"
	}
	if idx%5 == 4 {
		// the floor check itself may hit a storage fault: it must fail closed
		sc.Class += "+read-errors"
		sc.Rates.ReadErr = 0.05 + 0.25*r.Float64()
	}
	sc.MaxSteps = 60000
	return sc
}

func checkC08(c *Ctx) {
	const P = "C08"
	w, out, m := c.W, c.Out, c.M
	type comp struct {
		inv, ret uint64
		eff      uint64
		req      uint64
	}
	var comps []comp
	decreasing := false
	var lastReq uint64
	for _, r := range w.Recs {
		if r.Op.K != "compact" || !r.Done {
			continue
		}
		if r.Err == "" {
			comps = append(comps, comp{r.Inv, r.Ret, r.Hdr, r.RevAbs})
			if r.Hdr < lastReq {
				decreasing = true
			}
			if r.Hdr > lastReq {
				lastReq = r.Hdr
			}
		} else {
			// a failed request may still have raised the floor: treat it as possibly effective from its invocation on
			comps = append(comps, comp{r.Inv, ^uint64(0), r.Hdr, r.RevAbs})
		}
	}
	floorBefore := func(step uint64) uint64 { // surely in force: accepted and returned before step
		var f uint64
		for _, cp := range comps {
			if cp.ret < step && cp.eff > f {
				f = cp.eff
			}
		}
		return f
	}
	floorMaybe := func(step uint64) uint64 { // possibly in force: invoked at or before step
		var f uint64
		for _, cp := range comps {
			if cp.inv <= step && cp.eff > f {
				f = cp.eff
			}
		}
		return f
	}
	below := 0
	for _, r := range w.Recs {
		lagging := r.Op.Node == 1 && r.RevAbs == 0 && (r.Op.K == "list" || r.Op.K == "stream" || r.Op.K == "count")
		if !r.Done || (r.Op.K != "list" && r.Op.K != "stream" && !lagging) {
			continue
		}
		R := r.RevAbs
		if lagging {
			// a read "at latest" on the lagging node is a read at that node's own revision
			R = r.ComInv
			if r.Op.K == "count" {
				if fb := floorBefore(r.Inv); R < fb && r.Err == "" {
					out.violate(P, "read-below-floor-served", "read-below-floor-served op=count",
						"count on the lagging node (its revision %d) was answered (%d) although a compaction at %d had been accepted before it began", R, r.Count, fb)
				} else if R < fb {
					below++
				}
				continue
			}
		}
		if R == 0 {
			continue // "latest": never below the floor
		}
		if R > r.ComInv {
			continue // not yet readable: outside this property
		}
		failed := r.Err != ""
		var data []world.KV
		if r.Op.K == "list" {
			data = r.KVs
		} else {
			// stream shape: data batches (More=true) then exactly one terminator
			nterm := 0
			for i, b := range r.Batches {
				if !b.More {
					nterm++
					if i != len(r.Batches)-1 {
						out.violate(P, "stream-shape", "stream-shape", "stream at %d: terminator is message %d of %d", R, i, len(r.Batches))
					}
					if b.Err != "" {
						failed = true
					}
				} else {
					data = append(data, b.KVs...)
				}
			}
			if nterm != 1 {
				out.violate(P, "stream-shape", "stream-shape", "stream at %d delivered %d terminators", R, nterm)
			}
		}
		fb, fm := floorBefore(r.Inv), floorMaybe(r.Ret)
		switch {
		case R < fb:
			below++
			if !failed {
				out.violate(P, "read-below-floor-served", "read-below-floor-served op="+r.Op.K,
					"%s at revision %d was answered with data although a compaction at %d had been accepted before it began", r.Op.K, R, fb)
			} else if len(data) > 0 {
				out.violate(P, "read-below-floor-leaked-data", "read-below-floor-leaked-data op="+r.Op.K,
					"%s at revision %d (floor %d) failed but delivered %d key-values first", r.Op.K, R, fb, len(data))
			}
		case R >= fm:
			if failed && c.Sc.Rates.ReadErr > 0 {
				continue // with injected read errors a read may fail, never differ
			}
			if failed {
				out.violate(P, "read-above-floor-refused", "read-above-floor-refused op="+r.Op.K,
					"%s at revision %d failed (%s) although no compaction above %d was ever requested before it returned", r.Op.K, R, r.Err, fm)
				continue
			}
			fallthrough
		default:
			if failed {
				continue
			}
			if r.Op.Key != prefix+"/" {
				// the single-key shape: only its refusal below the floor is this property's business (what such
				// a range contains is C16's: the key encoding does not keep "k" inside [k, k+"\x00"))
				continue
			}
			want := m.Snap(R, r.Op.Key, r.Op.End)
			if r.Op.K == "list" && r.Op.Limit > 0 && int64(len(want)) > r.Op.Limit {
				want = want[:r.Op.Limit]
			}
			if !model.EqualKVs(kvsOf(data), want) {
				out.violate(P, "read-near-floor-wrong-data", "read-near-floor-wrong-data op="+r.Op.K,
					"%s at revision %d (floor surely %d, possibly %d) returned %s, model %s", r.Op.K, R, fb, fm, fmtKVs(kvsOf(data)), fmtKVs(want))
			}
		}
	}
	// the stored record never decreases
	type recw struct {
		seq int
		val uint64
	}
	var ws []recw
	for _, e := range w.KV.GT {
		if e.Class == "compact" && e.Applied && len(e.Muts) > 0 && len(e.Muts[0].Val) == 8 {
			ws = append(ws, recw{e.ApplySeq, binary.BigEndian.Uint64(e.Muts[0].Val)})
		}
	}
	sort.Slice(ws, func(i, j int) bool { return ws[i].seq < ws[j].seq })
	for i := 1; i < len(ws); i++ {
		if ws[i].val < ws[i-1].val {
			out.violate(P, "floor-lowered", "floor-lowered", "the stored compaction record went from %d down to %d", ws[i-1].val, ws[i].val)
			break
		}
	}
	if below > 0 {
		out.NonTrivial = true
		out.probe("read-below-accepted-floor")
	}
	if decreasing {
		out.probe("older-compaction-after-newer")
	}
}

func init() {
	register(&Prop{ID: "C08", Gen: genC08, Check: checkC08})
}
