package props

import (
	"sort"

	"verif/sim/simkv"
	"verif/sim/world"
)

// KeyState is the user-visible state of one raw key at one moment.
type KeyState struct {
	Exists bool // a live (non-deleted) version exists
	Tomb   bool // newest version is a deletion
	Rev    uint64
	Val    string
}

// Change is one applied version record.
type Change struct {
	ApplySeq  int
	ApplyStep uint64
	State     KeyState
	Entry     *simkv.Entry
	Mut       simkv.Mut
}

// Timeline is the real history of every raw key, from the ground truth.
type Timeline struct {
	Keys map[string][]Change // in apply order
}

func buildTimeline(gt []*simkv.Entry) *Timeline {
	tl := &Timeline{Keys: map[string][]Change{}}
	for _, e := range gt {
		if !e.Applied || e.Call != "commit" {
			continue
		}
		tomb := map[string]bool{}
		for _, mu := range e.Muts {
			if mu.InLay && mu.Rev == 0 && (mu.Op == "cas" || mu.Op == "pine" || mu.Op == "put") {
				tomb[mu.Raw] = len(mu.Val) == 9
			}
		}
		for _, mu := range e.Muts {
			if mu.InLay && mu.Rev > 0 && (mu.Op == "put" || mu.Op == "pine" || mu.Op == "cas") {
				st := KeyState{Exists: !tomb[mu.Raw], Tomb: tomb[mu.Raw], Rev: mu.Rev, Val: string(mu.Val)}
				tl.Keys[mu.Raw] = append(tl.Keys[mu.Raw], Change{ApplySeq: e.ApplySeq, ApplyStep: e.ApplyStep, State: st, Entry: e, Mut: mu})
			}
		}
	}
	for k := range tl.Keys {
		cs := tl.Keys[k]
		sort.SliceStable(cs, func(i, j int) bool { return cs[i].ApplySeq < cs[j].ApplySeq })
	}
	return tl
}

// StatesDuring returns the states key had at the start of step from and every
// state it took through step to (inclusive).
func (tl *Timeline) StatesDuring(key string, from, to uint64) []KeyState {
	var cur KeyState
	out := []KeyState{}
	started := false
	for _, c := range tl.Keys[key] {
		if c.ApplyStep < from {
			cur = c.State
			continue
		}
		if !started {
			out = append(out, cur)
			started = true
		}
		if c.ApplyStep <= to {
			out = append(out, c.State)
		}
	}
	if !started {
		out = append(out, cur)
	}
	return out
}

// Final returns the last state of key.
func (tl *Timeline) Final(key string) KeyState {
	cs := tl.Keys[key]
	if len(cs) == 0 {
		return KeyState{}
	}
	return cs[len(cs)-1].State
}

func isWrite(k string) bool { return k == "create" || k == "update" || k == "delete" }

// attribute maps every data-commit entry to the write request that issued it.
func attribute(recs []*world.Rec, gt []*simkv.Entry) (byRec map[*world.Rec][]*simkv.Entry, byEntry map[*simkv.Entry]*world.Rec) {
	byRec = map[*world.Rec][]*simkv.Entry{}
	byEntry = map[*simkv.Entry]*world.Rec{}
	for _, e := range gt {
		if e.Call != "commit" || e.Class != "data" {
			continue
		}
		if r, ok := e.Tag.(*world.Rec); ok && r != nil && isWrite(r.Op.K) {
			byRec[r] = append(byRec[r], e)
			byEntry[e] = r
		}
	}
	_ = recs
	return
}

// versionRev returns the revision carried by the version record of a data batch.
func versionRev(e *simkv.Entry) (raw string, rev uint64, ok bool) {
	for _, mu := range e.Muts {
		if mu.InLay && mu.Rev > 0 {
			return mu.Raw, mu.Rev, true
		}
	}
	return "", 0, false
}
