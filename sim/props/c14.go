package props

import (
	"encoding/json"
	"fmt"
	"sort"
	"strings"
	"testing"
	"time"

	"github.com/anishathalye/porcupine"
	metav1 "k8s.io/apimachinery/pkg/apis/meta/v1"
	"k8s.io/client-go/tools/leaderelection/resourcelock"

	"verif/sim/rt"
	"verif/sim/simkv"
	"verif/sim/world"
)

// C14 — the leader lock is taken by at most one candidate per observed state.

func genC14(r *rt.Rand, tier string, idx int) *world.Scenario {
	sc := &world.Scenario{Prefix: prefix, Seed: r.Uint64(), InitRev: 1000, Class: "competing-candidates"}
	switch idx % 5 {
	case 3:
		sc.Engine = "badger"
	case 4:
		sc.Engine = "tikv"
	default:
		sc.Engine = "memkv"
	}
	sc.MetricsKV = r.Chance(0.2)
	if r.Chance(0.4) {
		sc.Inactive = swarmSites(r, "kv.get", "kv.commit")
	}
	if sc.Engine == "tikv" && idx%10 == 4 {
		// a fault below the adapter: one point read of the TiKV client (the existence check of a create, the
		// value check of an update) is answered with a key error
		sc.Class = "competing-candidates+tikv-get-request-fault"
		sc.Extra = map[string]int64{"tikv_get_fault": int64(1 + r.Intn(12))}
	}
	if idx%5 != 4 && idx%4 == 2 {
		// the commit of a lock write fails without having been applied: plainly, or with an answer that says
		// "outcome unknown" - the candidate has not acquired anything
		sc.Class += "+lost-lock-commit"
		for i := 0; i < 1+r.Intn(2); i++ {
			sc.Plan = append(sc.Plan, &simkv.Fault{Op: "commit", Class: "lock", Nth: 1 + r.Intn(8), Effect: []string{"uncertain-lost", "err"}[r.Intn(2)]})
		}
	}
	nc := 2 + r.Intn(2)
	for c := 0; c < nc; c++ {
		var cl world.Client
		n := 3 + r.Intn(5)
		for i := 0; i < n; i++ {
			// mostly the elector's own sequence (get, then create-if-absent / update), sometimes arbitrary steps
			switch r.Weighted(38, 14, 33, 9, 6) {
			case 0:
				cl.Ops = append(cl.Ops, world.Op{K: "lget", Node: c})
			case 1:
				cl.Ops = append(cl.Ops, world.Op{K: "lcreate", Node: c})
			case 2:
				cl.Ops = append(cl.Ops, world.Op{K: "lacquire", Node: c}) // get, then create or update depending on what was seen
			case 3:
				// a renewal whose record is byte for byte the one last read (times have one-second resolution)
				cl.Ops = append(cl.Ops, world.Op{K: "lsame", Node: c})
			case 4:
				// a release: the record is rewritten without a holder (what the elector sends when it gives up)
				cl.Ops = append(cl.Ops, world.Op{K: "lrelease", Node: c})
			}
		}
		sc.Clients = append(sc.Clients, cl)
	}
	return sc
}

type lockOp struct {
	cand     int
	kind     string // get create update
	inv, ret uint64
	err      string
	wrote    string       // bytes written on success
	expected string       // bytes the candidate had last observed when it issued an update
	entry    *simkv.Entry // the seam's record of the write this call issued
	got      string       // get result (raw bytes at the seam)
	found    bool
}

type lockIn struct {
	kind, val, old string
}
type lockOut struct {
	ok    bool
	val   string
	found bool
}

func c14Custom(t *testing.T, sc *world.Scenario, out *Outcome) {
	const P = "C14"
	w, err := world.New(sc)
	if err != nil {
		out.Infra = err.Error()
		return
	}
	defer w.Teardown()
	nc := len(sc.Clients)
	locks := make([]resourcelock.Interface, nc)
	for i := 0; i < nc; i++ {
		n := w.AddNode()
		locks[i] = n.B.GetResourceLock()
	}
	lockKey := prefix + "/election"
	w.KV.LockKey = []byte(lockKey)
	s := w.S
	var ops []*lockOp
	done := 0
	serial := 0
	lastObserved := make([]string, nc) // raw bytes each candidate's next update is conditioned on
	haveObserved := make([]bool, nc)
	// what the seam saw for candidate c's last point read of the lock key
	lastGet := func(c int) (string, bool, bool) {
		for i := len(w.KV.GetLog) - 1; i >= 0; i-- {
			g := w.KV.GetLog[i]
			if g.Node == c && g.Key == lockKey {
				return string(g.Val), g.Err == "", true
			}
		}
		return "", false, false
	}
	record := func(c int) resourcelock.LeaderElectionRecord {
		serial++
		now := metav1.NewTime(time.Now())
		return resourcelock.LeaderElectionRecord{HolderIdentity: fmt.Sprintf("node-%d", c), LeaseDurationSeconds: 8, AcquireTime: now, RenewTime: now, LeaderTransitions: serial}
	}
	for c := 0; c < nc; c++ {
		c := c
		s.Go(fmt.Sprintf("cand%d", c), -1, func() {
			lk := locks[c]
			doGet := func() *lockOp {
				s.Yield("cand.step")
				op := &lockOp{cand: c, kind: "get", inv: s.StepNo()}
				_, err := lk.Get()
				op.ret = s.StepNo()
				if v, found, ok := lastGet(c); ok {
					op.got, op.found = v, found
					if found {
						lastObserved[c], haveObserved[c] = v, true
					}
				}
				if err != nil {
					op.err = err.Error()
				}
				ops = append(ops, op)
				return op
			}
			doCreate := func() {
				s.Yield("cand.step")
				rec := record(c)
				op := &lockOp{cand: c, kind: "create", inv: s.StepNo()}
				n0 := len(w.KV.GT)
				err := lk.Create(rec)
				op.ret = s.StepNo()
				if err != nil {
					op.err = err.Error()
				}
				for _, e := range w.KV.GT[n0:] {
					if e.Node == c && e.Class == "lock" && len(e.Muts) > 0 {
						op.wrote, op.entry = string(e.Muts[0].Val), e
					}
				}
				if err == nil {
					lastObserved[c], haveObserved[c] = op.wrote, true
				}
				ops = append(ops, op)
			}
			doUpdate := func(same bool, release ...bool) {
				s.Yield("cand.step")
				rec := record(c)
				if len(release) > 0 {
					rec.HolderIdentity = ""
					out.probe("release-attempted")
				}
				if same {
					if json.Unmarshal([]byte(lastObserved[c]), &rec) != nil {
						return
					}
					out.probe("renewal-identical-to-the-record-read")
				}
				op := &lockOp{cand: c, kind: "update", inv: s.StepNo(), expected: lastObserved[c]}
				n0 := len(w.KV.GT)
				err := lk.Update(rec)
				op.ret = s.StepNo()
				if err != nil {
					op.err = err.Error()
				}
				for _, e := range w.KV.GT[n0:] {
					if e.Node == c && e.Class == "lock" && len(e.Muts) > 0 {
						op.wrote, op.entry = string(e.Muts[0].Val), e
					}
				}
				if err == nil {
					// note: the implementation keeps conditioning on what it last *read* (Update does not refresh lastVal)
					_ = op
				}
				ops = append(ops, op)
			}
			for _, o := range sc.Clients[c].Ops {
				switch o.K {
				case "lget":
					doGet()
				case "lcreate":
					doCreate()
				case "lacquire":
					g := doGet()
					if g.err != "" && !g.found {
						doCreate()
					} else if g.err == "" {
						doUpdate(false)
					}
				case "lsame":
					if haveObserved[c] {
						doUpdate(true)
					}
				case "lrelease":
					if haveObserved[c] {
						doUpdate(false, true)
					}
				}
			}
			done++
		})
	}
	s.Settle()
	for steps := 0; done < nc && steps < 20000; steps++ {
		if !s.Step() {
			s.Advance(500 * time.Millisecond)
		}
	}
	if done < nc {
		out.Infra = "candidates did not finish"
		return
	}
	// ---- oracle 1: ground truth of the lock key as a CAS register
	var writes []*simkv.Entry
	for _, e := range w.KV.GT {
		if e.Class == "lock" && e.Applied {
			writes = append(writes, e)
		}
	}
	sort.Slice(writes, func(i, j int) bool { return writes[i].ApplySeq < writes[j].ApplySeq })
	cur, present := "", false
	creates := 0
	for _, e := range writes {
		mu := e.Muts[0]
		switch mu.Op {
		case "pine":
			creates++
			if present {
				out.violate(P, "create-over-existing-record", "create-over-existing-record", "candidate %d created the lock record although it existed", e.Node)
			}
		case "cas":
			if !present || string(mu.Old) != cur {
				out.violate(P, "update-without-matching-record", "update-without-matching-record", "candidate %d replaced the lock record %q while conditioning on %q", e.Node, cur, mu.Old)
			}
		default:
			out.violate(P, "unconditional-lock-write", "unconditional-lock-write", "candidate %d wrote the lock record with an unconditional %s", e.Node, mu.Op)
		}
		cur, present = string(mu.Val), true
	}
	if creates > 1 {
		out.violate(P, "two-creates-succeeded", "two-creates-succeeded", "%d creates of the lock record were applied", creates)
	}
	// ---- oracle 2: what each successful update was conditioned on must be what that candidate last observed
	for _, op := range ops {
		if op.kind == "update" && op.err == "" {
			e := op.entry
			if e != nil && !e.Applied {
				e = nil
			}
			if e == nil {
				out.violate(P, "acked-update-not-applied", "acked-update-not-applied", "candidate %d: Update returned nil but no write of its record was applied", op.cand)
				continue
			}
			if string(e.Muts[0].Old) != op.expected {
				out.violate(P, "update-conditioned-on-something-else", "update-conditioned-on-something-else",
					"candidate %d: Update succeeded conditioned on %q, but the record that candidate last read was %q", op.cand, e.Muts[0].Old, op.expected)
			}
		}
	}
	// ---- oracle 3: linearizability against a CAS-register model (success paths constrain; refusals never do)
	var hist []porcupine.Operation
	acquired := map[string]int{}
	for _, op := range ops {
		in := lockIn{kind: op.kind, val: op.wrote, old: op.expected}
		o := lockOut{ok: op.err == "", val: op.got, found: op.found}
		if op.kind == "get" && op.err != "" && (op.found || !strings.Contains(op.err, "not found")) {
			continue // a read that failed (after the point read: timestamp oracle; or in it: injected fault): no information
		}
		hist = append(hist, porcupine.Operation{ClientId: op.cand, Input: in, Call: int64(op.inv)*2 - 1, Output: o, Return: int64(op.ret) * 2})
		if (op.kind == "update" || op.kind == "create") && op.err == "" {
			if op.wrote != op.expected {
				acquired[op.expected]++ // (a renewal that rewrites the same bytes leaves the record as it was)
			}
			out.probe("acquire-succeeded")
		}
		if (op.kind == "update" || op.kind == "create") && op.err != "" {
			out.probe("acquire-refused")
		}
	}
	for from, n := range acquired {
		if n > 1 && from != "" {
			out.violate(P, "two-acquired-from-one-record", "two-acquired-from-one-record", "%d candidates acquired from the same observed record %q", n, from)
		}
	}
	model := porcupine.Model{
		Init: func() interface{} { return "\x00absent" },
		Step: func(state, input, output interface{}) (bool, interface{}) {
			st, in, o := state.(string), input.(lockIn), output.(lockOut)
			switch in.kind {
			case "get":
				if !o.found {
					return st == "\x00absent", st
				}
				return st == o.val, st
			case "create":
				if o.ok {
					return st == "\x00absent", in.val
				}
				return true, st
			case "update":
				if o.ok {
					return st == in.old, in.val
				}
				return true, st
			}
			return true, st
		},
		Equal: func(a, b interface{}) bool { return a.(string) == b.(string) },
	}
	res := porcupine.CheckOperationsTimeout(model, hist, 10*time.Second)
	switch res {
	case porcupine.Illegal:
		out.violate(P, "lock-history-not-linearizable", "lock-history-not-linearizable", "the recorded get/create/update history of the lock (%d operations) is not linearizable against a compare-and-swap register", len(hist))
	case porcupine.Unknown:
		out.Inconclusive = "porcupine timed out"
	}
	// non-triviality: two candidates' acquire attempts overlapped
	for i, a := range ops {
		for _, b := range ops[i+1:] {
			if a.cand != b.cand && a.kind != "get" && b.kind != "get" && a.inv <= b.ret && b.inv <= a.ret {
				out.NonTrivial = true
			}
		}
	}
	if out.NonTrivial {
		out.probe("acquire-attempts-overlapped")
	}
	out.Steps = s.StepNo()
	out.Hash = s.Hash()
	for _, op := range ops {
		out.Hash = rt.Mix(out.Hash, rt.HashStrings([]string{op.kind, op.err, fmt.Sprint(op.cand, op.inv, op.ret)}))
	}
	out.Hazards = s.Hazards
	out.Ops = len(ops)
	out.StateHash = rt.HashStrings([]string{fmt.Sprint(len(writes), creates)})
}

func init() {
	register(&Prop{ID: "C14", Gen: genC14, Custom: c14Custom})
}
