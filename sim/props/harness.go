// Package props holds, per property, the scenario generator and the oracles,
// plus the worker that executes scenarios inside synctest bubbles.
package props

import (
	"encoding/json"
	"fmt"
	"math/rand"
	"sort"
	"strings"
	"testing"
	"testing/synctest"
	"time"

	"verif/sim/model"
	"verif/sim/rt"
	"verif/sim/world"
)

// Violation is one oracle rule that fired.
type Violation struct {
	Prop   string `json:"prop"`
	Rule   string `json:"rule"`
	Sig    string `json:"sig"` // stable signature used for known-finding matching: rule + identifying input
	Detail string `json:"detail"`
}

// Outcome of one simulated run.
type Outcome struct {
	Violations   []Violation       `json:"violations,omitempty"`
	Inconclusive string            `json:"inconclusive,omitempty"`
	Infra        string            `json:"infra,omitempty"` // harness trouble: never a violation
	Steps        uint64            `json:"steps"`
	SimMs        int64             `json:"sim_ms"`
	Hash         uint64            `json:"hash"`
	SchedHash    uint64            `json:"sched_hash"`
	StateHash    uint64            `json:"state_hash"`
	Probes       map[string]int    `json:"probes,omitempty"`
	Fired        map[string]int    `json:"fired,omitempty"`
	SiteHits     map[string]uint64 `json:"site_hits,omitempty"`
	NonTrivial   bool              `json:"nontrivial"`
	Hazards      int               `json:"hazards,omitempty"`
	HazardNames  map[string]int    `json:"hazard_names,omitempty"`
	Trace        []string          `json:"trace,omitempty"`
	Ops          int               `json:"ops"`
}

func (o *Outcome) probe(name string) {
	if o.Probes == nil {
		o.Probes = map[string]int{}
	}
	o.Probes[name]++
}

func (o *Outcome) violate(prop, rule, sig, format string, args ...interface{}) {
	for _, v := range o.Violations {
		if v.Prop == prop && v.Sig == sig {
			return
		}
	}
	o.Violations = append(o.Violations, Violation{Prop: prop, Rule: rule, Sig: sig, Detail: fmt.Sprintf(format, args...)})
}

// Ctx is handed to a property's epilogue and oracle.
type Ctx struct {
	W   *world.World
	Sc  *world.Scenario
	Out *Outcome
	M   *model.MVCC
	T   *testing.T
	Fin *FinalReads
}

// Prop describes one property's machinery.
type Prop struct {
	ID string
	// Gen builds the idx-th scenario of a batch from its own PRNG.
	Gen func(r *rt.Rand, tier string, idx int) *world.Scenario
	// Setup runs after the world was built and before clients start (optional).
	Setup func(c *Ctx)
	// Epilogue runs inside the bubble after all clients finished (probes).
	Epilogue func(c *Ctx)
	// Check evaluates the oracles over the recorded history and ground truth.
	Check func(c *Ctx)
	// Custom replaces the standard world run entirely (raw-engine properties).
	Custom func(t *testing.T, sc *world.Scenario, out *Outcome)
	// Corpus returns directed scenarios run before the seeded search.
	Corpus func(tier string) []*world.Scenario
}

var Registry = map[string]*Prop{}

// BaseSeed is VERIF_SEED, for generators that derive several runs from one sampled history.
var BaseSeed uint64

func register(p *Prop) { Registry[p.ID] = p }

// Execute runs one scenario in a fresh bubble and returns its outcome.
func Execute(t *testing.T, p *Prop, sc *world.Scenario) (out *Outcome) {
	out = &Outcome{Probes: map[string]int{}}
	defer func() {
		// the bubble may end with parked background goroutines: recoverable
		if r := recover(); r != nil {
			msg := fmt.Sprint(r)
			if strings.Contains(msg, "deadlock: main bubble goroutine has exited") {
				return
			}
			panic(r)
		}
	}()
	// client-go's elector jitters its retry period with the global math/rand source: pin it per run
	rand.Seed(int64(sc.Seed))
	synctest.Test(t, func(t *testing.T) {
		if p.Custom != nil {
			p.Custom(t, sc, out)
			return
		}
		runStandard(t, p, sc, out)
	})
	return out
}

func runStandard(t *testing.T, p *Prop, sc *world.Scenario, out *Outcome) {
	w, err := world.New(sc)
	if err != nil {
		out.Infra = "world: " + err.Error()
		return
	}
	defer w.Teardown()
	c := &Ctx{W: w, Sc: sc, Out: out, T: t}
	n := w.AddNode()
	n.B.SetCurrentRevision(sc.InitRev)
	for i := int64(1); i < sc.Extra["nodes"]; i++ {
		w.AddNode() // a cold node over the same engine: empty event cache, revision not yet initialised
	}
	if p.Setup != nil {
		p.Setup(c)
	}
	w.Start()
	w.Run()
	if w.Stuck {
		// not a verdict by itself: the property's oracle decides what a stall means
		out.probe("stuck:" + w.StuckWhy)
	}
	w.Idle(12*time.Second, 5000)
	if !sc.KeepFaults() {
		w.KV.StopFaults() // "once faults stop": epilogue probes run against a healthy engine
	}
	w.TiKVScanFaultArmed = false // faults below the TiKV adapter are for the clients' requests, not for the harness' own dump
	if p.Epilogue != nil {
		p.Epilogue(c)
	}
	w.DrainWatchers()
	c.M = model.FromGT(w.KV.GT)
	if p.Check != nil {
		p.Check(c)
	}
	for _, pm := range w.Panics {
		// a request whose handler panics: nothing recovers it in the real node (the process ends)
		out.probe("panic-on-request-goroutine")
		kind := pm
		if i := strings.Index(pm, " "); i > 0 {
			kind = pm[:i]
		}
		out.violate(p.ID, "request-panicked", "request-panicked op="+kind, "a request panicked inside the node (nothing recovers a handler's panic: the process ends): %s", pm[:min(len(pm), 300)])
	}
	reportLockLeaks(p.ID, w, out)
	out.Steps = w.S.StepNo()
	out.SimMs = w.S.SimTime().Milliseconds()
	out.Hash = w.S.Hash()
	out.Hazards = w.S.Hazards
	out.HazardNames = w.S.HazardNames
	out.Fired = w.KV.Fired
	out.SiteHits = w.S.SiteHits
	out.Ops = len(w.Recs)
	for k, v := range w.KV.Probes {
		out.Probes[k] += v
	}
	if w.S.KeepTrace {
		for _, e := range w.KV.GT {
			line := fmt.Sprintf("GT#%d %s %s class=%s applied=%v err=%q fault=%s steps=%d/%d/%d:", e.Seq, e.Task, e.Call, e.Class, e.Applied, clipS(e.Err), e.Fault, e.EnterStep, e.ApplyStep, e.RetStep)
			for _, m := range e.Muts {
				line += fmt.Sprintf(" %s(%s@%d val=%q old=%q)", m.Op, m.Raw, m.Rev, clipS(string(m.Val)), clipS(string(m.Old)))
			}
			out.Trace = append(out.Trace, line)
		}
	}
	out.Trace = append(out.Trace, w.S.Trace...)
	out.StateHash = stateHash(w)
	// fold the history into the hash so that "same hash" means same observable run
	hb, _ := json.Marshal(w.Recs)
	out.Hash = rt.Mix(out.Hash, rt.HashStrings([]string{string(hb)}))
	for _, wa := range w.Watchers {
		eb, _ := json.Marshal(wa.Events)
		out.Hash = rt.Mix(out.Hash, rt.HashStrings([]string{string(eb)}))
	}
	if !sc.SkipVerify() {
		if err := w.KV.VerifyInner(true); err != nil {
			// The seam logs every engine call with the engine's own answer. If the store ends up different from
			// what those answers add up to, an engine applied a batch it reported as failed (or the reverse):
			// whatever the node told its clients on that basis is wrong.
			out.violate(p.ID, "store-contradicts-engine-answers", "store-contradicts-engine-answers",
				"the store's final content differs from what the engine's own answers add up to: %s", err.Error())
		}
	}
}

// stateHash abstracts the final state: store content modulo revision renaming.
func stateHash(w *world.World) uint64 {
	m := model.FromGT(w.KV.GT)
	var parts []string
	keys := make([]string, 0, len(m.Keys))
	for k := range m.Keys {
		keys = append(keys, k)
	}
	sort.Strings(keys)
	// dense rank of revisions
	var revs []uint64
	for _, k := range keys {
		for _, v := range m.Keys[k] {
			revs = append(revs, v.Rev)
		}
	}
	sort.Slice(revs, func(i, j int) bool { return revs[i] < revs[j] })
	rank := map[uint64]int{}
	for i, r := range revs {
		rank[r] = i
	}
	for _, k := range keys {
		for _, v := range m.Keys[k] {
			parts = append(parts, fmt.Sprintf("%s@%d:%v:%s", k, rank[v.Rev], v.Tomb, v.Val))
		}
	}
	return rt.HashStrings(parts)
}

func clipS(s string) string {
	if len(s) > 40 {
		return s[:40]
	}
	return s
}

// reportLockLeaks: on an engine that holds its store lock from BeginBatchWrite to Commit (memkv), a write
// batch that is begun and never committed wedges the node: every later engine call waits for ever. The seam
// replays such an engine's batches at Commit, so the simulated run goes on; the seam reports what it saw.
func reportLockLeaks(P string, w *world.World, out *Outcome) {
	for _, l := range w.KV.LockLeaks {
		out.violate(P, "store-lock-never-released", "store-lock-never-released", "memkv's store lock would never be released: %s", l)
	}
}
