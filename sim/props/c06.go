package props

import (
	"fmt"
	"sort"

	"verif/sim/rt"
	"verif/sim/world"
)

// C06 — list-then-watch reconstructs the store. Pure cross-check of observables.

// genC06Takeover: list on the old node, a few more writes, a cold node takes over at the revision
// reached, the client resumes its watch from R+1 there and lists again later.
func genC06Takeover(r *rt.Rand) *world.Scenario {
	sc := &world.Scenario{Prefix: prefix, InitRev: pickInitRev(r), Seed: r.Uint64(), Engine: "memkv", Class: "list-then-watch-across-a-takeover"}
	sc.Extra = map[string]int64{"nodes": 2}
	keys := []string{prefix + "/a", prefix + "/b", prefix + "/pods/ns/p1"}
	var cl world.Client
	for i := 0; i < 1+r.Intn(4); i++ {
		cl.Ops = append(cl.Ops, world.Op{K: "update", Key: keys[r.Intn(len(keys))], Val: fmt.Sprintf("a%d", i), Rev: world.Rev{M: "known"}})
	}
	cl.Ops = append(cl.Ops, world.Op{K: "waitcommitted"}, world.Op{K: "list", Key: prefix + "/", End: prefix + "0"})
	for i := 0; i < r.Intn(3); i++ {
		cl.Ops = append(cl.Ops, world.Op{K: "update", Key: keys[r.Intn(len(keys))], Val: fmt.Sprintf("b%d", i), Rev: world.Rev{M: "known"}})
	}
	cl.Ops = append(cl.Ops, world.Op{K: "waitcommitted"}, world.Op{K: "takeover", Node: 1, W: 0},
		world.Op{K: "watch", Key: prefix + "/", Rev: world.Rev{M: "listhdrplus", N: 1}, W: 1, Consume: "eager", Node: 1})
	for i := 0; i < 1+r.Intn(4); i++ {
		cl.Ops = append(cl.Ops, world.Op{K: "update", Key: keys[r.Intn(len(keys))], Val: fmt.Sprintf("c%d", i), Rev: world.Rev{M: "known"}, Node: 1})
	}
	cl.Ops = append(cl.Ops, world.Op{K: "waitcommitted", Node: 1}, world.Op{K: "list", Key: prefix + "/", End: prefix + "0", Node: 1})
	sc.Clients = []world.Client{cl}
	return sc
}

// genC06Overflow: the list-then-watch client is slow enough to be dropped by the hub (its buffers
// overflow during a long burst of writes). Whatever it is still given must remain a gap-free
// continuation of its list: a list at any revision up to the last delivered event must equal the
// reconstruction.
func genC06Overflow(r *rt.Rand) *world.Scenario {
	sc := genC05Overflow(r)
	sc.Class = "list-then-watch-with-a-dropped-subscriber"
	slow := sc.Clients[0].Ops[0].Consume
	if slow == "never" {
		slow = fmt.Sprintf("lag:%d:every:%d", 9900+r.Intn(230), 20+r.Intn(60))
	}
	p, end := prefix+"/", prefix+"0"
	reader := world.Client{Ops: []world.Op{{K: "list", Key: p, End: end}, {K: "watch", Key: p, Rev: world.Rev{M: "hdrplus", N: 1}, W: 1, Consume: slow}}}
	for i := 0; i < 3; i++ {
		// the clock only moves when nothing can run: each pause ends after the writers' current burst
		reader.Ops = append(reader.Ops, world.Op{K: "sleep", Ms: int64(2 + i)}, world.Op{K: "list", Key: p, End: end})
	}
	sc.Clients[0] = reader
	// the long burst goes over many keys: an event that is lost then shows in the reconstruction
	sc.Clients[1].Ops[1].Key, sc.Clients[1].Ops[1].Ms = prefix+"/k", int64(500+r.Intn(2000))
	sc.Clients[1].Ops = append(sc.Clients[1].Ops, world.Op{K: "sleep", Ms: 3}, world.Op{K: "burst", Key: prefix + "/a", Val: "d", Limit: int64(50 + r.Intn(300))})
	return sc
}

func genC06(r *rt.Rand, tier string, idx int) *world.Scenario {
	if idx%10 == 8 {
		return genC06Takeover(r)
	}
	if idx%40 == 27 {
		return genC06Overflow(r)
	}
	sc := &world.Scenario{Prefix: prefix, InitRev: pickInitRev(r), Seed: r.Uint64(), Engine: "memkv", Class: "list-watch-with-writers"}
	if r.Chance(0.2) {
		sc.Engine = "badger"
	}
	sc.WatchCache = []int{0, 0, 0, 64, 8}[r.Intn(5)]
	sc.Inactive = swarmSites(r, "seq.commit", "seq.cache", "seq.bcast")
	keys := []string{prefix + "/a", prefix + "/a/b", prefix + "/ab", prefix + "/pods/ns/p1", prefix + "/pods/ns/p2", prefix + "/b"}
	// some initial content
	for i := 0; i < r.Intn(5); i++ {
		sc.Prologue = append(sc.Prologue, world.Op{K: "create", Key: keys[r.Intn(len(keys))], Val: fmt.Sprintf("p%d", i)})
	}
	if len(sc.Prologue) > 0 {
		sc.Prologue = append(sc.Prologue, world.Op{K: "waitcommitted"})
	}
	nw := 1 + r.Intn(3)
	compactions := false
	for c := 0; c < nw; c++ {
		var cl world.Client
		n := 5 + r.Intn(18)
		for i := 0; i < n; i++ {
			k := keys[r.Intn(len(keys))]
			v := fmt.Sprintf("v%d.%d", c, i)
			switch r.Weighted(25, 40, 20, 5, 10) {
			case 0:
				cl.Ops = append(cl.Ops, world.Op{K: "create", Key: k, Val: v})
			case 1:
				e := world.Rev{M: "known"}
				if r.Chance(0.25) {
					e = world.Rev{M: "stale", N: 1}
				}
				cl.Ops = append(cl.Ops, world.Op{K: "update", Key: k, Val: v, Rev: e})
			case 2:
				e := world.Rev{M: "known"}
				if r.Chance(0.3) {
					e = world.Rev{M: "zero"}
				}
				cl.Ops = append(cl.Ops, world.Op{K: "delete", Key: k, Rev: e})
			case 3:
				cl.Ops = append(cl.Ops, world.Op{K: "get", Key: k})
			case 4:
				compactions = true
				cr := world.Rev{M: "committed", N: -int64(r.Intn(6))}
				if r.Chance(0.3) {
					cr = world.Rev{M: "zero"}
				}
				cl.Ops = append(cl.Ops, world.Op{K: "compact", Rev: cr})
			}
		}
		sc.Clients = append(sc.Clients, cl)
	}
	if compactions {
		sc.Class = "list-watch-with-writers-and-compaction"
	}
	if idx%10 == 6 {
		// frequent iterator errors: a list may fail, a list that is answered must still be right
		sc.Class += "+read-errors"
		sc.Rates.ReadErr = 0.1 + 0.6*r.Float64()
	}
	prefixes := []string{prefix + "/", prefix + "/a", prefix + "/pods/"}
	for c := 0; c < 1+r.Intn(2); c++ {
		p := prefixes[r.Intn(len(prefixes))]
		end := string(prefixEnd([]byte(p)))
		var cl world.Client
		if r.Chance(0.5) {
			cl.Ops = append(cl.Ops, world.Op{K: "sleep", Ms: int64(r.Intn(3))})
		}
		cl.Ops = append(cl.Ops, world.Op{K: "list", Key: p, End: end},
			world.Op{K: "watch", Key: p, Rev: world.Rev{M: "hdrplus", N: 1}, W: 1, Consume: "eager"})
		for i := 0; i < 2+r.Intn(5); i++ {
			if r.Chance(0.5) {
				cl.Ops = append(cl.Ops, world.Op{K: "sleep", Ms: int64(r.Intn(4))})
			} else {
				cl.Ops = append(cl.Ops, world.Op{K: "get", Key: keys[r.Intn(len(keys))]})
			}
			cl.Ops = append(cl.Ops, world.Op{K: "list", Key: p, End: end})
		}
		sc.Clients = append(sc.Clients, cl)
	}
	return sc
}

func prefixEnd(p []byte) []byte {
	end := append([]byte(nil), p...)
	for i := len(end) - 1; i >= 0; i-- {
		if end[i] < 0xff {
			end[i]++
			return end[:i+1]
		}
	}
	return []byte{0}
}

// reconstruct applies events with revision <= upTo, in order, to a range result.
func reconstruct(base []world.KV, evs []world.Ev, upTo uint64) []world.KV {
	m := map[string]world.KV{}
	for _, kv := range base {
		m[kv.Key] = kv
	}
	for _, e := range evs {
		if e.Rev > upTo {
			break
		}
		switch e.Type {
		case "DELETE":
			delete(m, e.Key)
		default:
			m[e.Key] = world.KV{Key: e.Key, Val: e.Val, Rev: e.Rev}
		}
	}
	out := make([]world.KV, 0, len(m))
	for _, kv := range m {
		out = append(out, kv)
	}
	sort.Slice(out, func(i, j int) bool { return out[i].Key < out[j].Key })
	return out
}

func equalWKVs(a, b []world.KV) bool {
	if len(a) != len(b) {
		return false
	}
	for i := range a {
		if a[i] != b[i] {
			return false
		}
	}
	return true
}

// checkListWatch is shared with C09 (convergence).
func checkListWatch(c *Ctx, P string, onlyFinal bool) (compared int) {
	w, out := c.W, c.Out
	byClient := map[int][]*world.Rec{}
	for _, r := range w.Recs {
		if r.Op.K == "list" && r.Done && r.Err == "" && r.RevAbs == 0 {
			byClient[r.Client] = append(byClient[r.Client], r)
		}
	}
	for _, wa := range w.Watchers {
		lists := byClient[wa.Client]
		if wa.Refused != "" || wa.Client == -2 {
			continue // C05's business
		}
		// a stream that was closed (dropped subscriber) still has to be a gap-free continuation of the
		// list as far as it went: lists up to the revision of its last delivered event are compared
		lastDelivered := uint64(0)
		for _, e := range wa.Events {
			if e.Rev > lastDelivered {
				lastDelivered = e.Rev
			}
		}
		// the base list is the last list of the same prefix that returned before the watch was registered
		var base *world.Rec
		for _, l := range lists {
			if l.Op.Key == wa.Prefix && l.Ret < wa.RegInv {
				base = l
			}
		}
		if base == nil || wa.Start != base.Hdr+1 {
			continue
		}
		if wa.Closed && lastDelivered > base.Hdr && c.M != nil && !onlyFinal {
			// no list was served at the revision the closed stream reached: compare with the store's
			// snapshot at that revision (what a list at that revision returns, C03)
			var want []world.KV
			for _, kv := range c.M.Snap(lastDelivered, base.Op.Key, base.Op.End) {
				want = append(want, world.KV{Key: kv.Key, Val: string(kv.Val), Rev: kv.Rev})
			}
			got := reconstruct(base.KVs, wa.Events, lastDelivered)
			compared++
			out.probe("closed-stream-compared-with-snapshot")
			if !equalWKVs(got, want) {
				out.violate(P, "list-watch-mismatch", "list-watch-mismatch closed-stream",
					"client %d: list of %q at revision %d + the %d events the stream delivered before it was closed (up to %d) = %v, but the store at revision %d holds %v",
					wa.Client, wa.Prefix, base.Hdr, len(wa.Events), lastDelivered, got, lastDelivered, want)
				continue
			}
		}
		for i, l := range lists {
			if l.Op.Key != wa.Prefix || l.Inv <= wa.RegRet {
				continue
			}
			if onlyFinal && i != len(lists)-1 {
				continue
			}
			if wa.Closed && l.Hdr > lastDelivered {
				continue
			}
			got := reconstruct(base.KVs, wa.Events, l.Hdr)
			compared++
			if !equalWKVs(got, l.KVs) {
				out.violate(P, "list-watch-mismatch", "list-watch-mismatch",
					"client %d: list of %q at revision %d + events up to %d = %v, but the list served at revision %d is %v",
					wa.Client, wa.Prefix, base.Hdr, l.Hdr, got, l.Hdr, l.KVs)
				break
			}
		}
	}
	return
}

func checkC06(c *Ctx) {
	if c.W.Stuck {
		c.Out.Inconclusive = "run did not reach quiescence: " + c.W.StuckWhy
		return
	}
	n := checkListWatch(c, "C06", false)
	evs, comp := 0, false
	for _, wa := range c.W.Watchers {
		evs += len(wa.Events)
		for _, r := range c.W.Recs {
			if r.Op.K == "compact" && r.Done && r.Err == "" && r.Inv > wa.RegRet {
				comp = true
			}
		}
	}
	if n > 0 && evs > 0 {
		c.Out.NonTrivial = true
		c.Out.probe("compared-with-events-applied")
	}
	if n > 0 && comp {
		c.Out.probe("compaction-overlapped-watch")
	}
}

func init() {
	register(&Prop{ID: "C06", Gen: genC06, Check: checkC06})
}
