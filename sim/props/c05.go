package props

import (
	"encoding/hex"
	"fmt"
	"sort"
	"strings"

	"verif/sim/rt"
	"verif/sim/world"
)

// C05 — a watch delivers exactly the matching changes, once, in order — or is closed.

// expectedEvents derives, from the ground truth, one event per successful write.
func expectedEvents(c *Ctx) []world.Ev {
	tl := buildTimeline(c.W.KV.GT)
	var evs []world.Ev
	for key, cs := range tl.Keys {
		var prev KeyState
		for _, ch := range cs {
			ev := world.Ev{Key: key, Rev: ch.State.Rev}
			r, _ := ch.Entry.Tag.(*world.Rec)
			switch {
			case ch.State.Tomb:
				ev.Type, ev.Val, ev.KvRev = "DELETE", prev.Val, prev.Rev
			case ch.Entry.ByRetry:
				// a repair re-emits the original verb; decided by the retry oracle (C09)
				ev.Type, ev.Val, ev.KvRev = "PUT", ch.State.Val, ch.State.Rev
			case r != nil && (r.Op.K == "create" || (r.Op.K == "update" && r.RevAbs == 0)):
				ev.Type, ev.Val, ev.KvRev = "CREATE", ch.State.Val, ch.State.Rev
			default:
				ev.Type, ev.Val, ev.KvRev = "PUT", ch.State.Val, ch.State.Rev
			}
			evs = append(evs, ev)
			prev = ch.State
		}
	}
	sort.Slice(evs, func(i, j int) bool { return evs[i].Rev < evs[j].Rev })
	return evs
}

func sameEvent(a, b world.Ev) bool {
	return a.Type == b.Type && a.Key == b.Key && a.Val == b.Val && a.Rev == b.Rev && a.KvRev == b.KvRev
}

func checkWatchers(c *Ctx, P string, all []world.Ev, requireComplete bool) {
	out := c.Out
	for _, wa := range c.W.Watchers {
		name := fmt.Sprintf("watch c%d.%d prefix=%q start=%d consume=%s", wa.Client, wa.ID, wa.Prefix, wa.Start, wa.Consume)
		var E []world.Ev
		for _, e := range all {
			if strings.HasPrefix(e.Key, wa.Prefix) && e.Rev >= wa.Start {
				E = append(E, e)
			}
		}
		if wa.Refused != "" {
			out.probe("watch-refused")
			if (wa.Start == 0 || wa.Start > wa.ComAtRet) && wa.Consume != "never" {
				out.violate(P, "unjustified-refusal", "unjustified-refusal", "%s refused (%s) although it needs no history (committed revision %d)", name, wa.Refused, wa.ComAtRet)
			}
			continue
		}
		D := wa.Events
		for i := 1; i < len(D); i++ {
			if D[i].Rev <= D[i-1].Rev {
				out.violate(P, "event-order", "event-order", "%s: event revision %d delivered after %d", name, D[i].Rev, D[i-1].Rev)
			}
		}
		off := 0
		if wa.Start == 0 && len(D) > 0 {
			// "from registration": a contiguous run that may begin anywhere not after the first event above committed-at-return
			for off < len(E) && E[off].Rev < D[0].Rev {
				off++
			}
			for i, e := range E {
				if e.Rev > wa.ComAtRet {
					if off > i {
						out.violate(P, "missed-event-after-registration", "missed-event-after-registration",
							"%s: event %s@%d (committed after the watch was registered at committed revision %d) was never delivered; first delivered %d", name, e.Key, e.Rev, wa.ComAtRet, D[0].Rev)
					}
					break
				}
			}
		}
		if wa.Start == 0 && len(D) == 0 && !wa.Closed {
			for off < len(E) && E[off].Rev <= wa.ComAtRet {
				off++
			}
		}
		for i, d := range D {
			if off+i >= len(E) {
				out.violate(P, "unexpected-event", "unexpected-event", "%s: delivered %s %s@%d which is not a successful write matching the watch", name, d.Type, d.Key, d.Rev)
				break
			}
			e := E[off+i]
			if !sameEvent(d, e) {
				rule := "wrong-event"
				if d.Rev > e.Rev {
					rule = "gap"
				} else if d.Rev < e.Rev {
					rule = "duplicate-or-stale-event"
				}
				sig := rule
				if rule == "gap" && wa.Consume != "eager" && wa.Consume != "" {
					sig = "gap slow-consumer"
				}
				out.violate(P, rule, sig, "%s: delivered #%d = %s %s@%d val=%q kvrev=%d, expected %s %s@%d val=%q kvrev=%d (stream closed=%v)",
					name, i, d.Type, d.Key, d.Rev, d.Val, d.KvRev, e.Type, e.Key, e.Rev, e.Val, e.KvRev, wa.Closed)
				break
			}
		}
		if wa.Closed {
			out.probe("watch-closed")
			if !wa.Canceled && (wa.Consume == "eager" || wa.Consume == "") {
				out.violate(P, "unjustified-close", "unjustified-close", "%s: stream of a keeping-up, never cancelled watcher was closed after %d events", name, len(D))
			}
			if !wa.Canceled {
				out.probe("subscriber-dropped")
			}
			continue
		}
		if requireComplete && off+len(D) < len(E) {
			e := E[off+len(D)]
			out.violate(P, "incomplete-at-quiescence", "incomplete-at-quiescence", "%s: stream still open at quiescence but %d of %d events were not delivered; first missing %s %s@%d", name, len(E)-off-len(D), len(E)-off, e.Type, e.Key, e.Rev)
		}
		if len(D) > 0 {
			out.probe("events-delivered")
		}
	}
}

func checkC05(c *Ctx) {
	all := expectedEvents(c)
	checkWatchers(c, "C05", all, !c.W.Stuck)
	if c.W.Stuck {
		// a watch (or write) request that never returns: the client gets neither a stream nor a refusal
		c.Out.violate("C05", "request-never-returned", "request-never-returned", "client requests did not finish: %s; tasks: %v", c.W.StuckWhy, stuckTasks(c.W))
	}
	// non-triviality: a watcher registered while writes were in flight and received events
	for _, wa := range c.W.Watchers {
		if len(wa.Events) == 0 || wa.Client == -2 {
			continue
		}
		for _, r := range c.W.Recs {
			if isWrite(r.Op.K) && r.Done && r.Inv <= wa.RegRet && wa.RegInv <= r.Ret {
				c.Out.NonTrivial = true
				c.Out.probe("registration-raced-with-write")
			}
		}
		if wa.Start != 0 && wa.Start <= wa.ComAtInv {
			c.Out.probe("start-inside-history")
		}
	}
	if c.W.Sc.WatchCache > 0 && len(all) > c.W.Sc.WatchCache {
		c.Out.probe("cache-wrapped")
	}
}

var watchPrefixes = []string{prefix + "/", prefix + "/a", prefix + "/pods/", prefix + "/a/b", prefix + "/zzz", "/", prefix + "/events/"}

func pickWatchStart(r *rt.Rand) world.Rev {
	switch r.Weighted(20, 20, 15, 15, 10, 10, 10) {
	case 0:
		return world.Rev{M: "zero"}
	case 1:
		return world.Rev{M: "init", N: int64(r.Intn(25))}
	case 2:
		return world.Rev{M: "committed", N: 0}
	case 3:
		return world.Rev{M: "committed", N: 1}
	case 4:
		return world.Rev{M: "committed", N: -int64(1 + r.Intn(6))}
	case 5:
		return world.Rev{M: "committed", N: int64(2 + r.Intn(5))}
	}
	return world.Rev{M: "hdr"}
}

func pickConsume(r *rt.Rand) string {
	switch r.Weighted(70, 20, 10) {
	case 1:
		return fmt.Sprintf("every:%d", 5+r.Intn(60))
	case 2:
		return "never"
	}
	return "eager"
}

// genC05Takeover: a cold node (empty event cache) takes over at the revision the old one had
// reached; watches on it start below, at and above that revision.
func genC05Takeover(r *rt.Rand) *world.Scenario {
	sc := &world.Scenario{Prefix: prefix, InitRev: pickInitRev(r), Seed: r.Uint64(), Engine: "memkv", Class: "watch-on-a-node-that-took-over"}
	sc.Extra = map[string]int64{"nodes": 2}
	sc.WatchCache = []int{0, 8, 64}[r.Intn(3)]
	keys := []string{prefix + "/a", prefix + "/b", prefix + "/pods/ns/p1"}
	var cl world.Client
	n := 1 + r.Intn(6)
	for i := 0; i < n; i++ {
		cl.Ops = append(cl.Ops, world.Op{K: "update", Key: keys[r.Intn(len(keys))], Val: fmt.Sprintf("old%d", i), Rev: world.Rev{M: "known"}})
	}
	cl.Ops = append(cl.Ops, world.Op{K: "waitcommitted"}, world.Op{K: "takeover", Node: 1, W: 0})
	wid := 0
	watch := func() {
		wid++
		start := []world.Rev{{M: "committed", N: 0}, {M: "committed", N: -1}, {M: "committed", N: 1}, {M: "zero"}, {M: "committed", N: -int64(2 + r.Intn(3))}}[r.Intn(5)]
		cl.Ops = append(cl.Ops, world.Op{K: "watch", Key: []string{prefix + "/", prefix + "/a"}[r.Intn(2)], Rev: start, W: wid, Consume: "eager", Node: 1})
	}
	watch()
	for i := 0; i < r.Intn(6); i++ {
		cl.Ops = append(cl.Ops, world.Op{K: "update", Key: keys[r.Intn(len(keys))], Val: fmt.Sprintf("new%d", i), Rev: world.Rev{M: "known"}, Node: 1})
		if r.Chance(0.4) {
			watch()
		}
	}
	sc.Clients = []world.Client{cl}
	return sc
}

// genC05DeepReplay: a watch from far back in a large event cache: tens of thousands of cached events are
// replayed into the watch's result channel (100 slots) before anyone reads it. Long, therefore rare.
func genC05DeepReplay(r *rt.Rand) *world.Scenario {
	sc := &world.Scenario{Prefix: prefix, InitRev: pickInitRev(r), Seed: r.Uint64(), Engine: "memkv", Class: "replay-of-a-deep-event-cache", Stick: 0.9}
	sc.Inactive = []string{"seq.commit", "seq.committed", "seq.cache", "seq.bcast", "seq.sent", "kv.get", "kv.get.ret", "kv.commit", "kv.commit.ret", "kv.parts", "hub.recv", "client.next"}
	n := int64(30001 + r.Intn(3000))
	sc.Clients = []world.Client{{Ops: []world.Op{
		{K: "burst", Key: prefix + "/a", Val: "d", Limit: n},
		{K: "waitcommitted"},
		{K: "watch", Key: prefix + "/", Rev: world.Rev{M: "init", N: int64(1 + r.Intn(50))}, W: 1, Consume: "eager"},
		{K: "burst", Key: prefix + "/b", Val: "e", Limit: int64(1 + r.Intn(20)), W: 1},
	}}}
	sc.MaxSteps = 3000000
	return sc
}

func genC05(r *rt.Rand, tier string, idx int) *world.Scenario {
	if idx%40 == 39 {
		return genC05Overflow(r)
	}
	if idx%800 == 41 {
		return genC05DeepReplay(r)
	}
	if idx%10 == 7 {
		return genC05Takeover(r)
	}
	sc := &world.Scenario{Prefix: prefix, InitRev: pickInitRev(r), Seed: r.Uint64(), Engine: "memkv", Class: "registration-races"}
	sc.WatchCache = []int{1, 2, 3, 5, 8, 64, 0}[r.Intn(7)]
	if r.Chance(0.15) {
		sc.Engine = "badger"
	}
	sc.Inactive = swarmSites(r, "seq.cache", "seq.bcast", "seq.sent", "watch.enter", "watch.subscribed", "watch.cacheread", "hub.recv")
	keys := []string{prefix + "/a", prefix + "/a/b", prefix + "/pods/ns/p1", prefix + "/b"}
	wp := watchPrefixes
	if idx%10 == 3 {
		// keys and watch prefixes that are not valid UTF-8, next to look-alikes made of valid characters
		sc.Class = "registration-races+binary-keys"
		hx := func(s string) string { return "hex:" + hex.EncodeToString([]byte(s)) }
		keys = []string{hx(prefix + "/bin/\xff\xfe/a"), hx(prefix + "/bin/\xff\xfe/b"), prefix + "/bin/?/a", prefix + "/bin/\uFFFD/a", prefix + "/b", hx(prefix + "/bin/\xff")}
		wp = []string{hx(prefix + "/bin/\xff\xfe/"), hx(prefix + "/bin/\xff"), prefix + "/bin/?/", prefix + "/bin/", prefix + "/", prefix + "/bin/\uFFFD"}
	}
	nw := 1 + r.Intn(3)
	wid := 0
	for c := 0; c < nw; c++ {
		var cl world.Client
		n := 4 + r.Intn(16)
		for i := 0; i < n; i++ {
			k := keys[r.Intn(len(keys))]
			v := fmt.Sprintf("v%d.%d", c, i)
			switch r.Weighted(25, 40, 20, 5, 10) {
			case 0:
				cl.Ops = append(cl.Ops, world.Op{K: "create", Key: k, Val: v})
			case 1:
				e := world.Rev{M: "known"}
				if r.Chance(0.25) {
					e = world.Rev{M: "stale", N: 1}
				}
				cl.Ops = append(cl.Ops, world.Op{K: "update", Key: k, Val: v, Rev: e})
			case 2:
				cl.Ops = append(cl.Ops, world.Op{K: "delete", Key: k, Rev: world.Rev{M: "known"}})
			case 3:
				cl.Ops = append(cl.Ops, world.Op{K: "get", Key: k})
			case 4:
				wid++
				cl.Ops = append(cl.Ops, world.Op{K: "watch", Key: wp[r.Intn(len(wp))], Rev: pickWatchStart(r), W: wid, Consume: pickConsume(r)})
			}
		}
		sc.Clients = append(sc.Clients, cl)
	}
	// dedicated watcher clients registering at arbitrary moments
	for c := 0; c < 1+r.Intn(3); c++ {
		var cl world.Client
		for i := 0; i < 1+r.Intn(3); i++ {
			if r.Chance(0.6) {
				cl.Ops = append(cl.Ops, world.Op{K: "sleep", Ms: int64(r.Intn(3))})
			}
			wid++
			cl.Ops = append(cl.Ops, world.Op{K: "watch", Key: wp[r.Intn(len(wp))], Rev: pickWatchStart(r), W: wid, Consume: pickConsume(r)})
			if r.Chance(0.2) {
				cl.Ops = append(cl.Ops, world.Op{K: "get", Key: keys[0]}, world.Op{K: "cancel", W: wid})
			}
		}
		sc.Clients = append(sc.Clients, cl)
	}
	return sc
}

// genC05Overflow: a long shallow run that overflows a subscriber's buffer
// (10000 batches + 100 in the result channel) while another watcher keeps up.
func genC05Overflow(r *rt.Rand) *world.Scenario {
	sc := &world.Scenario{Prefix: prefix, InitRev: pickInitRev(r), Seed: r.Uint64(), Engine: "memkv", Class: "subscriber-buffer-overflow"}
	sc.WatchCache = []int{64, 0}[r.Intn(2)]
	sc.Inactive = []string{"seq.commit", "seq.cache", "watch.subscribed", "watch.cacheread", "kv.get", "kv.get.ret", "kv.commit", "kv.commit.ret", "kv.parts"}
	sc.MaxSteps = 400000
	slow := "never"
	if r.Chance(0.8) {
		// idle until about the moment the buffer overflows, then consume slowly
		// (the hub buffers 10 000 batches, the watch goroutine 100 more and one in hand)
		slow = fmt.Sprintf("lag:%d:every:%d", 9900+r.Intn(230), 20+r.Intn(60))
	}
	n := int64(10600 + r.Intn(1200))
	sc.Clients = []world.Client{
		{Ops: []world.Op{{K: "watch", Key: prefix + "/", W: 1, Consume: slow}, {K: "watch", Key: prefix + "/", W: 2, Consume: "eager"}}},
		{Ops: []world.Op{{K: "sleep", Ms: 1}, {K: "burst", Key: prefix + "/a", Val: "b", Limit: n, W: 1}, {K: "burst", Key: prefix + "/b", Val: "c", Limit: int64(20 + r.Intn(200))}}},
	}
	sc.Extra = map[string]int64{}
	if r.Chance(0.7) {
		sc.Extra["stall:hub.delete"] = int64(10 + r.Intn(300)) // the asynchronous drop is slow to run
	}
	return sc
}

// c05Corpus: directed scenarios that reach the slow-subscriber drop cheaply.
func c05Corpus(tier string) []*world.Scenario {
	var out []*world.Scenario
	for i, cfg := range [][3]int64{{62000, 40, 300}, {63000, 25, 120}, {60000, 60, 600}} {
		r := rt.NewRand(uint64(77 + i))
		sc := genC05Overflow(r)
		sc.Prop = "C05"
		sc.Class = "subscriber-buffer-overflow-directed"
		sc.Clients[0].Ops[0].Consume = fmt.Sprintf("from:%d:every:%d", cfg[0], cfg[1])
		sc.Extra = map[string]int64{"stall:hub.delete": cfg[2]}
		sc.Clients[1].Ops[1].Limit = 11500
		out = append(out, sc)
		if tier == "quick" && i == 0 {
			break
		}
	}
	return out
}

func init() {
	register(&Prop{ID: "C05", Gen: genC05, Check: checkC05, Corpus: c05Corpus})
}
