package props

import (
	"context"
	"encoding/hex"
	"fmt"
	"runtime/debug"
	"sort"
	"strings"
	"testing"
	"time"

	pb "go.etcd.io/etcd/api/v3/etcdserverpb"
	"go.etcd.io/etcd/api/v3/mvccpb"

	"verif/sim/model"
	"verif/sim/rt"
	"verif/sim/simkv"
	"verif/sim/world"
)

// C16 — the etcd-facing API answers Kubernetes' requests as etcd would.
// Oracle: an executable etcd-semantics reference (map with mod revisions; Txn = compare then
// branch) run on the same history, revisions taken from KubeBrain's answers.

type etcdKV struct {
	val string
	mod int64
}

type etcdModel struct {
	kv map[string]etcdKV
}

func (m *etcdModel) rangeKeys(key, end string) []string {
	var ks []string
	for k := range m.kv {
		if end == "" {
			if k == key {
				ks = append(ks, k)
			}
		} else if k >= key && (end == "\x00" || k < end) {
			ks = append(ks, k)
		}
	}
	sort.Strings(ks)
	return ks
}

func (m *etcdModel) compare(c *pb.Compare) (ok bool, supported bool) {
	cur, exists := m.kv[string(c.Key)]
	var lhs, rhs int64
	switch c.Target {
	case pb.Compare_MOD:
		if exists {
			lhs = cur.mod
		}
		rhs = c.GetModRevision()
	default:
		return false, false // version / create revision / value are not maintained by KubeBrain
	}
	switch c.Result {
	case pb.Compare_EQUAL:
		return lhs == rhs, true
	case pb.Compare_NOT_EQUAL:
		return lhs != rhs, true
	case pb.Compare_GREATER:
		return lhs > rhs, true
	case pb.Compare_LESS:
		return lhs < rhs, true
	}
	return false, false
}

// etcdEffect is what the reference prescribes for one transaction.
type etcdEffect struct {
	evaluable bool // the reference can evaluate this transaction
	succeeded bool
	ranges    [][]etcdOut // per executed Range op: kvs
	puts      map[string]string
	dels      map[string]bool
}

type etcdOut struct {
	key, val string
	mod      int64
}

func (m *etcdModel) eval(txn *pb.TxnRequest) etcdEffect {
	eff := etcdEffect{evaluable: true, succeeded: true, puts: map[string]string{}, dels: map[string]bool{}}
	for _, c := range txn.Compare {
		ok, sup := m.compare(c)
		if !sup {
			eff.evaluable = false
			return eff
		}
		if !ok {
			eff.succeeded = false
		}
	}
	ops := txn.Success
	if !eff.succeeded {
		ops = txn.Failure
	}
	for _, op := range ops {
		switch {
		case op.GetRequestRange() != nil:
			r := op.GetRequestRange()
			var outs []etcdOut
			for _, k := range m.rangeKeys(string(r.Key), string(r.RangeEnd)) {
				outs = append(outs, etcdOut{k, m.kv[k].val, m.kv[k].mod})
			}
			eff.ranges = append(eff.ranges, outs)
		case op.GetRequestPut() != nil:
			p := op.GetRequestPut()
			if p.IgnoreValue || p.IgnoreLease || p.PrevKv {
				eff.evaluable = false // flags KubeBrain does not implement: must be rejected
				return eff
			}
			eff.puts[string(p.Key)] = string(p.Value)
		case op.GetRequestDeleteRange() != nil:
			d := op.GetRequestDeleteRange()
			if d.PrevKv {
				eff.evaluable = false
				return eff
			}
			for _, k := range m.rangeKeys(string(d.Key), string(d.RangeEnd)) {
				eff.dels[k] = true
			}
		default:
			eff.evaluable = false
			return eff
		}
	}
	return eff
}

func (m *etcdModel) apply(eff etcdEffect, rev int64) {
	for k := range eff.dels {
		delete(m.kv, k)
	}
	for k, v := range eff.puts {
		m.kv[k] = etcdKV{v, rev}
	}
}

// ---- request construction ----

func cmpMod(key string, rev int64) *pb.Compare {
	return &pb.Compare{Target: pb.Compare_MOD, Result: pb.Compare_EQUAL, Key: []byte(key), TargetUnion: &pb.Compare_ModRevision{ModRevision: rev}}
}
func opPut(key, val string) *pb.RequestOp {
	return &pb.RequestOp{Request: &pb.RequestOp_RequestPut{RequestPut: &pb.PutRequest{Key: []byte(key), Value: []byte(val)}}}
}
func opRange(key string) *pb.RequestOp {
	return &pb.RequestOp{Request: &pb.RequestOp_RequestRange{RequestRange: &pb.RangeRequest{Key: []byte(key)}}}
}
func opDel(key string) *pb.RequestOp {
	return &pb.RequestOp{Request: &pb.RequestOp_RequestDeleteRange{RequestDeleteRange: &pb.DeleteRangeRequest{Key: []byte(key)}}}
}

// buildTxn builds a transaction of a named shape. Supported shapes are the four Kubernetes issues.
func buildTxn(shape, key, other, val string, rev int64) (*pb.TxnRequest, bool) {
	switch shape {
	case "create":
		return &pb.TxnRequest{Compare: []*pb.Compare{cmpMod(key, 0)}, Success: []*pb.RequestOp{opPut(key, val)}}, true
	case "update":
		return &pb.TxnRequest{Compare: []*pb.Compare{cmpMod(key, rev)}, Success: []*pb.RequestOp{opPut(key, val)}, Failure: []*pb.RequestOp{opRange(key)}}, true
	case "delete":
		return &pb.TxnRequest{Compare: []*pb.Compare{cmpMod(key, rev)}, Success: []*pb.RequestOp{opDel(key)}, Failure: []*pb.RequestOp{opRange(key)}}, true
	case "udelete":
		return &pb.TxnRequest{Success: []*pb.RequestOp{opRange(key), opDel(key)}}, true
	// ---- structurally valid but unsupported ----
	case "create-key-mismatch":
		return &pb.TxnRequest{Compare: []*pb.Compare{cmpMod(other, 0)}, Success: []*pb.RequestOp{opPut(key, val)}}, false
	case "update-key-mismatch":
		return &pb.TxnRequest{Compare: []*pb.Compare{cmpMod(other, rev)}, Success: []*pb.RequestOp{opPut(key, val)}, Failure: []*pb.RequestOp{opRange(key)}}, false
	case "delete-key-mismatch":
		return &pb.TxnRequest{Compare: []*pb.Compare{cmpMod(other, rev)}, Success: []*pb.RequestOp{opDel(key)}, Failure: []*pb.RequestOp{opRange(key)}}, false
	case "udelete-key-mismatch":
		return &pb.TxnRequest{Success: []*pb.RequestOp{opRange(other), opDel(key)}}, false
	case "delete-range":
		d := opDel(key)
		d.GetRequestDeleteRange().RangeEnd = []byte(key + "\xff")
		return &pb.TxnRequest{Compare: []*pb.Compare{cmpMod(key, rev)}, Success: []*pb.RequestOp{d}, Failure: []*pb.RequestOp{opRange(key)}}, false
	case "udelete-range":
		d := opDel(key)
		d.GetRequestDeleteRange().RangeEnd = []byte(key + "\xff")
		return &pb.TxnRequest{Success: []*pb.RequestOp{opRange(key), d}}, false
	case "update-prevkv":
		p := opPut(key, val)
		p.GetRequestPut().PrevKv = true
		return &pb.TxnRequest{Compare: []*pb.Compare{cmpMod(key, rev)}, Success: []*pb.RequestOp{p}, Failure: []*pb.RequestOp{opRange(key)}}, false
	case "update-ignore-value":
		p := opPut(key, val)
		p.GetRequestPut().IgnoreValue = true
		return &pb.TxnRequest{Compare: []*pb.Compare{cmpMod(key, rev)}, Success: []*pb.RequestOp{p}, Failure: []*pb.RequestOp{opRange(key)}}, false
	case "cmp-greater":
		c := cmpMod(key, rev)
		c.Result = pb.Compare_GREATER
		return &pb.TxnRequest{Compare: []*pb.Compare{c}, Success: []*pb.RequestOp{opPut(key, val)}, Failure: []*pb.RequestOp{opRange(key)}}, false
	case "cmp-version":
		c := &pb.Compare{Target: pb.Compare_VERSION, Result: pb.Compare_EQUAL, Key: []byte(key), TargetUnion: &pb.Compare_Version{Version: 0}}
		return &pb.TxnRequest{Compare: []*pb.Compare{c}, Success: []*pb.RequestOp{opPut(key, val)}}, false
	case "two-compares":
		return &pb.TxnRequest{Compare: []*pb.Compare{cmpMod(key, rev), cmpMod(other, 0)}, Success: []*pb.RequestOp{opPut(key, val)}, Failure: []*pb.RequestOp{opRange(key)}}, false
	case "put-no-compare":
		return &pb.TxnRequest{Success: []*pb.RequestOp{opPut(key, val)}}, false
	case "two-puts":
		return &pb.TxnRequest{Compare: []*pb.Compare{cmpMod(key, rev)}, Success: []*pb.RequestOp{opPut(key, val), opPut(other, val)}, Failure: []*pb.RequestOp{opRange(key)}}, false
	case "update-failure-other-key":
		return &pb.TxnRequest{Compare: []*pb.Compare{cmpMod(key, rev)}, Success: []*pb.RequestOp{opPut(key, val)}, Failure: []*pb.RequestOp{opRange(other)}}, false
	case "create-mod-nonzero-no-failure":
		return &pb.TxnRequest{Compare: []*pb.Compare{cmpMod(key, rev)}, Success: []*pb.RequestOp{opPut(key, val)}}, false
	}
	return nil, false
}

var c16Unsupported = []string{"create-key-mismatch", "update-key-mismatch", "delete-key-mismatch", "udelete-key-mismatch", "delete-range", "udelete-range",
	"update-prevkv", "update-ignore-value", "cmp-greater", "cmp-version", "two-compares", "put-no-compare", "two-puts", "update-failure-other-key", "create-mod-nonzero-no-failure"}

func genC16(r *rt.Rand, tier string, idx int) *world.Scenario {
	if idx%6 == 5 {
		// concurrent histories: the key-value of a failure branch must be the *current* one. The etcd
		// shim passes the backend's failure-branch key-value through unchanged (the sequential class
		// checks that), so this class drives concurrent writers through the backend API.
		sc := genWrites(r, tier, idx, writeOpts{})
		sc.Class = "concurrent-writers-failure-branch"
		sc.Extra = map[string]int64{"c16_concurrent": 1}
		return sc
	}
	sc := &world.Scenario{Prefix: prefix, Seed: r.Uint64(), Engine: "memkv", EtcdCompat: true, Class: "etcd-api-history"}
	sc.Extra = map[string]int64{"lockstep": 1}
	if idx%6 == 3 {
		// the same histories on TiKV split into several regions: range, count and stream answers are assembled
		// from the adapter's partitions
		sc.Class = "etcd-api-history(tikv regions)"
		sc.Engine = "tikv"
		sc.Extra["tikv_regions"] = 1
		for i := 0; i < 1+r.Intn(3); i++ {
			kk := []string{prefix + "/a", prefix + "/a/b", prefix + "/b", prefix + "/pods/ns/p1", prefix + "/pods/ns/p2"}[r.Intn(5)]
			// (the node's first revision is the timestamp of its election: 1.1 simulated seconds after 2000-01-01,
			// in nanoseconds; later revisions count up from there, so these borders fall between real versions)
			const c16FirstRev = uint64(946684801100000000)
			sc.Parts = append(sc.Parts, hex.EncodeToString(simkv.EncodeKey([]byte(kk), []uint64{0, c16FirstRev + uint64(2+r.Intn(30))}[r.Intn(2)])))
			if r.Chance(0.4) {
				// a second border inside the same key's versions
				sc.Parts = append(sc.Parts, hex.EncodeToString(simkv.EncodeKey([]byte(kk), c16FirstRev+uint64(2+r.Intn(40)))))
			}
		}
	}
	if idx%6 == 2 {
		// one transient iterator error inside a range scan: the scan is retried, the answer must still be etcd's
		sc.Class = "etcd-api-history+scan-fault"
		sc.Plan = append(sc.Plan, &simkv.Fault{Op: "scannext", Nth: 1 + r.Intn(60), Effect: "err"})
		sc.Extra["keep_faults"] = 1
	}
	if idx%12 == 4 {
		// a few transient read errors anywhere (the look at the key before a write, the read that fills a
		// failure branch, a point read): the request may fail, it may not answer anything etcd would not
		sc.Class = "etcd-api-history+read-faults"
		for i := 0; i < 1+r.Intn(3); i++ {
			sc.Plan = append(sc.Plan, &simkv.Fault{Op: []string{"iter", "next"}[r.Intn(2)], Nth: 1 + r.Intn(70), Effect: "err"})
		}
		sc.Extra["keep_faults"] = 1
	}
	keys := []string{prefix + "/a", prefix + "/a/b", prefix + "/b", prefix + "/pods/ns/p1", prefix + "/pods/ns/p2"}
	var cl world.Client
	n := 12 + r.Intn(30)
	wid := 0
	for i := 0; i < n; i++ {
		k := keys[r.Intn(len(keys))]
		o := keys[r.Intn(len(keys))]
		v := fmt.Sprintf("v%d", i)
		rev := []world.Rev{{M: "known"}, {M: "known"}, {M: "known"}, {M: "stale", N: 1}, {M: "zero"}}[r.Intn(5)]
		switch r.Weighted(14, 18, 10, 6, 12, 14, 6, 6, 14) {
		case 0:
			cl.Ops = append(cl.Ops, world.Op{K: "etxn", API: "create", Key: k, Val: v})
		case 1:
			cl.Ops = append(cl.Ops, world.Op{K: "etxn", API: "update", Key: k, Val: v, Rev: rev})
		case 2:
			cl.Ops = append(cl.Ops, world.Op{K: "etxn", API: "delete", Key: k, Rev: rev})
		case 3:
			cl.Ops = append(cl.Ops, world.Op{K: "etxn", API: "udelete", Key: k})
		case 4:
			cl.Ops = append(cl.Ops, world.Op{K: "erange", Key: k})
		case 5:
			a, b := prefix+"/", prefix+"0"
			if r.Chance(0.4) {
				a, b = prefix+"/a", prefix+"/b"
			}
			if r.Chance(0.1) {
				// etcd's way of writing "exactly this key" as a range
				a, b = k, k+"\x00"
			}
			cl.Ops = append(cl.Ops, world.Op{K: "erange", Key: a, End: b, Limit: int64(r.Intn(4))})
		case 6:
			cl.Ops = append(cl.Ops, world.Op{K: "erange", Key: prefix + "/", End: prefix + "0", API: "count"})
		case 7:
			wid++
			cl.Ops = append(cl.Ops, world.Op{K: "ewatch", Key: []string{prefix + "/", prefix + "/pods/"}[r.Intn(2)], W: wid})
		case 8:
			sh := c16Unsupported[r.Intn(len(c16Unsupported))]
			if o == k {
				o = keys[(r.Intn(len(keys)-1)+1+indexOf(keys, k))%len(keys)]
			}
			cl.Ops = append(cl.Ops, world.Op{K: "etxn", API: sh, Key: k, End: o, Val: v, Rev: rev})
		}
	}
	sc.Clients = []world.Client{cl}
	return sc
}

func indexOf(xs []string, x string) int {
	for i, y := range xs {
		if y == x {
			return i
		}
	}
	return 0
}

type c16Watch struct {
	prefix string
	stream *world.EtcdWatchStream
	from   int // index into the event log when the watch was created
}

type c16Event struct {
	typ      string
	key, val string
	mod      int64
	prevVal  string
	prevMod  int64
	hasPrev  bool
	seq      int
}

// checkC16Concurrent: what a failed guarded update/delete returns as "current key-value".
func checkC16Concurrent(c *Ctx) {
	const P = "C16"
	// the success flags of concurrent conditional writes: what was acknowledged was applied once, no two
	// requests succeed on one expected revision (the conditional-write oracle of C01, without its justification clause)
	checkChain(c, P, false)
	tl := buildTimeline(c.W.KV.GT)
	n := 0
	for _, r := range c.W.Recs {
		if !r.Done || r.Err != "" || r.OK || r.Client < 0 || (r.Op.K != "update" && r.Op.K != "delete") {
			continue
		}
		n++
		// (only for expectations the statement quantifies over - correct, stale, zero: a guessed future
		// revision can come into existence between the refused write and the read of the failure branch)
		if r.RevAbs != 0 && r.KV != nil && r.KV.Rev == r.RevAbs && r.Op.Rev.M != "future" {
			c.Out.violate(P, "failure-branch-matches-expectation", "failure-branch-matches-expectation op="+r.Op.K,
				"%s %s expecting revision %d reported a failed condition, but the key-value in its failure branch has exactly that revision", r.Op.K, r.Op.Key, r.RevAbs)
		}
		ok := false
		sts := tl.StatesDuring(r.Op.Key, r.Inv, r.Ret)
		for _, st := range sts {
			if (r.KV == nil && !st.Exists) || (r.KV != nil && st.Exists && st.Rev == r.KV.Rev && st.Val == r.KV.Val) {
				ok = true
			}
		}
		if !ok {
			c.Out.violate(P, "failure-branch-not-current", "failure-branch-not-current op="+r.Op.K, "%s %s: failure branch returned %+v, the key's states during the request were %+v", r.Op.K, r.Op.Key, r.KV, sts)
		}
	}
	if n > 0 {
		c.Out.NonTrivial = true
		c.Out.probe("concurrent-failure-branch-checked")
	}
}

func c16Custom(t *testing.T, sc *world.Scenario, out *Outcome) {
	const P = "C16"
	if sc.Extra["c16_concurrent"] != 0 {
		runStandard(t, &Prop{ID: P, Check: checkC16Concurrent}, sc, out)
		return
	}
	w, err := world.New(sc)
	if err != nil {
		out.Infra = err.Error()
		return
	}
	defer w.Teardown()
	pn := w.NewPeerNet()
	sn := w.AddServer(pn, false)
	if !w.WaitLeader(sn, 20*time.Second) {
		out.Infra = "node never became leader"
		return
	}
	s := w.S
	m := &etcdModel{kv: map[string]etcdKV{}}
	known := map[string][]int64{}
	learn := func(k string, rev int64) {
		if rev != 0 && (len(known[k]) == 0 || known[k][len(known[k])-1] != rev) {
			known[k] = append(known[k], rev)
		}
	}
	resolve := func(op world.Op) int64 {
		ks := known[op.Key]
		switch op.Rev.M {
		case "known":
			if len(ks) > 0 {
				return ks[len(ks)-1]
			}
			return 0
		case "stale":
			if len(ks) > 1 {
				return ks[len(ks)-2]
			}
			if len(ks) == 1 && ks[0] > 1 {
				return ks[0] - 1
			}
			return 1
		}
		return 0
	}
	var events []c16Event
	var watches []*c16Watch
	ctx := context.Background()
	finished := false
	gtMark := func() int { return len(w.KV.GT) }
	mutatedSince := func(mark int) bool {
		for _, e := range w.KV.GT[mark:] {
			if e.Class == "data" && e.Applied && e.Call == "commit" {
				return true
			}
		}
		return false
	}
	// resync makes the reference equal to the store (newest versions in the ground truth), so that
	// every operation is judged on its own even after an earlier one was flagged
	resync := func() (diff string) {
		mv := model.FromGT(w.KV.GT)
		for _, k := range allKeys(m, mv) {
			v, ok := mv.At(k, 0)
			live := ok && !v.Tomb
			mk, mok := m.kv[k]
			if live != mok || (live && (string(v.Val) != mk.val || int64(v.Rev) != mk.mod)) {
				if diff == "" {
					diff = fmt.Sprintf("the store holds %s=%q@%d live=%v, etcd semantics prescribe %q@%d present=%v", k, v.Val, v.Rev, live, mk.val, mk.mod, mok)
				}
				if live {
					m.kv[k] = etcdKV{string(v.Val), int64(v.Rev)}
					learn(k, int64(v.Rev))
				} else {
					delete(m.kv, k)
				}
			}
		}
		return
	}
	s.Go("etcd-client", -1, func() {
		defer func() {
			// a panic inside a handler, on the request's goroutine, ends a real node (no recovery interceptor)
			if x := recover(); x != nil {
				where := ""
				for _, line := range strings.Split(string(debug.Stack()), "\n") {
					if strings.Contains(line, "github.com/kubewharf/kubebrain/") && !strings.Contains(line, "/verifhook") && strings.Contains(line, "(") {
						where = strings.TrimSpace(line)
						if j := strings.LastIndex(where, "("); j > 0 {
							where = where[:j]
						}
						break
					}
				}
				out.violate(P, "request-panicked", "request-panicked "+where, "a request through the etcd API panicked: %v at %s", x, where)
				finished = true
			}
		}()
		for i, op := range sc.Clients[0].Ops {
			s.YieldIdle("client.lockstep")
			switch op.K {
			case "etxn":
				rev := resolve(op)
				txn, supported := buildTxn(op.API, op.Key, op.End, op.Val, rev)
				if txn == nil {
					continue
				}
				if op.API == "delete" && rev == 0 {
					// "delete if the key does not exist": Kubernetes never issues it; it counts as an unsupported shape
					supported = false
					op.API = "delete-zero-revision"
				}
				eff := m.eval(txn)
				mark := gtMark()
				readFaults := w.KV.Fired["iter:err"] + w.KV.Fired["next:err"]
				resp, err := sn.Etcd.Txn(ctx, txn)
				s.YieldIdle("client.lockstep")
				s.Note("txn %d %s -> %v %v", i, op.API, resp.GetSucceeded(), err)
				if supported {
					out.probe("supported-shape-" + op.API)
				} else {
					out.probe("unsupported-shape")
				}
				if err != nil {
					if mutatedSince(mark) {
						out.violate(P, "error-but-mutated", "error-but-mutated shape="+op.API, "txn %s on %s answered error %q but mutated the store", op.API, op.Key, err.Error())
					}
					if supported && w.KV.Fired["iter:err"]+w.KV.Fired["next:err"] > readFaults {
						out.probe("txn-failed-on-injected-read-error")
					} else if supported {
						out.violate(P, "supported-shape-rejected", "supported-shape-rejected shape="+op.API, "supported transaction %s(%s, rev %d) was rejected: %v", op.API, op.Key, rev, err)
					}
					resync()
					continue
				}
				if !eff.evaluable {
					// executed although etcd semantics cannot be honoured (flags / compare targets KubeBrain does not implement)
					out.violate(P, "unsupported-shape-executed", "unsupported-shape-executed shape="+op.API, "transaction %s on %s was executed (succeeded=%v) instead of being rejected", op.API, op.Key, resp.Succeeded)
					resync()
					continue
				}
				// executed: flag, effect and failure-branch results must be what etcd prescribes
				hdr := resp.GetHeader().GetRevision()
				bad := false
				if resp.Succeeded != eff.succeeded {
					sig := "success-flag shape=" + op.API
					if op.API == "udelete" {
						if _, ok := m.kv[op.Key]; !ok {
							sig += " absent-key"
						}
					}
					out.violate(P, "success-flag", sig, "txn %s(%s, rev %d): Succeeded=%v, etcd semantics prescribe %v (model %v)", op.API, op.Key, rev, resp.Succeeded, eff.succeeded, m.kv[op.Key])
					bad = true
				}
				// the store effect: compare with the ground truth's newest versions
				if !bad {
					m.apply(eff, hdr)
				}
				if diff := resync(); diff != "" {
					if !bad {
						out.violate(P, "executed-as-something-else", "executed-as-something-else shape="+op.API,
							"after txn %s(key %s, other %s, rev %d) %s", op.API, op.Key, op.End, rev, diff)
					}
					bad = true
				}
				if !supported && !bad {
					out.probe("unsupported-shape-executed-correctly")
				}
				// responses of the executed branch: Range results
				if !bad {
					ri := 0
					for _, ro := range resp.Responses {
						rr := ro.GetResponseRange()
						if rr == nil || ri >= len(eff.ranges) {
							continue
						}
						want := eff.ranges[ri]
						ri++
						if !resp.Succeeded || op.API == "udelete" {
							if !sameEtcdKVs(rr.Kvs, want) {
								out.violate(P, "branch-range-result", "branch-range-result shape="+op.API, "txn %s(%s): range in the executed branch returned %s, etcd semantics prescribe %v", op.API, op.Key, fmtEtcdKVs(rr.Kvs), want)
							}
						}
					}
					if !resp.Succeeded && len(eff.ranges) > 0 && ri == 0 {
						out.violate(P, "branch-range-result", "branch-range-result-missing shape="+op.API, "txn %s(%s) failed but carries no range result", op.API, op.Key)
					}
				}
				// bookkeeping for later expectations
				for k := range eff.puts {
					learn(k, hdr)
				}
				for _, ro := range resp.Responses {
					if rr := ro.GetResponseRange(); rr != nil {
						for _, kv := range rr.Kvs {
							learn(string(kv.Key), kv.ModRevision)
						}
					}
				}
			case "erange":
				req := &pb.RangeRequest{Key: []byte(op.Key), RangeEnd: []byte(op.End), Limit: op.Limit, CountOnly: op.API == "count"}
				firedBefore := w.KV.Fired["scannext:err"] + w.KV.Fired["iter:err"] + w.KV.Fired["next:err"]
				resp, err := sn.Etcd.Range(ctx, req)
				s.Note("range %d -> %d %v", i, len(resp.GetKvs()), err)
				if err != nil {
					if w.KV.Fired["scannext:err"]+w.KV.Fired["iter:err"]+w.KV.Fired["next:err"] > firedBefore {
						// the injected iterator error surfaced: the read may fail, it may not answer wrongly
						out.probe("range-failed-on-injected-scan-error")
						continue
					}
					out.violate(P, "range-rejected", "range-rejected", "Range(%s,%s) failed: %v", op.Key, op.End, err)
					continue
				}
				if w.KV.Fired["scannext:err"]+w.KV.Fired["iter:err"]+w.KV.Fired["next:err"] > firedBefore {
					out.probe("range-answered-despite-injected-scan-error")
				}
				ks := m.rangeKeys(op.Key, op.End)
				total := int64(len(ks))
				if op.API == "count" {
					if resp.Count != total {
						out.violate(P, "range-count", "range-count count-only", "Range(%s,%s,count only) Count=%d, etcd semantics prescribe %d", op.Key, op.End, resp.Count, total)
					}
					continue
				}
				want := ks
				more := false
				if op.Limit > 0 && int64(len(ks)) > op.Limit {
					want, more = ks[:op.Limit], true
				}
				var wantKVs []etcdOut
				for _, k := range want {
					wantKVs = append(wantKVs, etcdOut{k, m.kv[k].val, m.kv[k].mod})
				}
				// a range end below the key separator: "[k, k+NUL)" is etcd's spelling of the single key k
				endSig := ""
				if strings.HasPrefix(op.End, op.Key) && len(op.End) > len(op.Key) && op.End[len(op.Key)] < '$' {
					endSig = " range-end=key+byte-below-separator"
				}
				if !sameEtcdKVs(resp.Kvs, wantKVs) {
					out.violate(P, "range-result", "range-result"+endSig, "Range(%q,%q,limit %d) returned %s, etcd semantics prescribe %v", op.Key, op.End, op.Limit, fmtEtcdKVs(resp.Kvs), wantKVs)
				}
				if resp.More != more {
					out.violate(P, "range-more", "range-more", "Range(%s,%s,limit %d) More=%v, etcd semantics prescribe %v", op.Key, op.End, op.Limit, resp.More, more)
				}
				if resp.Count != total {
					sig := "range-count"
					if more {
						sig += " limited-range"
					}
					sig += endSig
					out.violate(P, "range-count", sig, "Range(%s,%s,limit %d) Count=%d, etcd semantics prescribe the total %d", op.Key, op.End, op.Limit, resp.Count, total)
				}
				if more {
					out.probe("range-limit-cut")
				}
				for _, kv := range resp.Kvs {
					learn(string(kv.Key), kv.ModRevision)
					if kv.ModRevision > resp.Header.GetRevision() {
						out.violate(P, "range-header", "range-header", "Range header %d below data revision %d", resp.Header.GetRevision(), kv.ModRevision)
					}
				}
			case "ewatch":
				st := world.NewEtcdWatchStream()
				ws := &c16Watch{prefix: op.Key, stream: st, from: w.KV.ApplyCount()}
				watches = append(watches, ws)
				s.Go(fmt.Sprintf("etcd-watch-stream%d", op.W), -1, func() {
					st.RetErr = sn.Etcd.Watch(st)
					st.Returned = true
				})
				st.Reqs <- &pb.WatchRequest{RequestUnion: &pb.WatchRequest_CreateRequest{CreateRequest: &pb.WatchCreateRequest{Key: []byte(op.Key), RangeEnd: []byte(op.Key + "\xff"), StartRevision: 0, PrevKv: true}}}
				out.probe("watch-created")
			}
		}
		s.YieldIdle("client.lockstep")
		finished = true
	})
	s.Settle()
	for steps := 0; steps < 60000 && !finished; steps++ {
		if !s.Step() {
			s.Advance(250 * time.Millisecond)
		}
	}
	if !finished {
		out.Inconclusive = "client did not finish"
		return
	}
	w.Idle(2*time.Second, 3000)
	// expected events come from the ground truth: one per applied change, in revision order
	tl := buildTimeline(w.KV.GT)
	for key, cs := range tl.Keys {
		var prev KeyState
		for _, ch := range cs {
			ev := c16Event{key: key, mod: int64(ch.State.Rev), seq: ch.ApplySeq}
			if ch.State.Tomb {
				ev.typ, ev.hasPrev, ev.prevVal, ev.prevMod = "DELETE", true, prev.Val, int64(prev.Rev)
			} else {
				ev.typ, ev.val = "PUT", ch.State.Val
			}
			events = append(events, ev)
			prev = ch.State
		}
	}
	// watch oracle: PUT and DELETE (with previous key-value) for every change after creation
	for _, ws := range watches {
		var got []c16Event
		for _, r := range ws.stream.Snapshot() {
			if r.Created || r.Canceled {
				continue
			}
			for _, e := range r.Events {
				ev := c16Event{key: string(e.Kv.Key), mod: e.Kv.ModRevision}
				if e.Type == mvccpb.PUT {
					ev.typ, ev.val = "PUT", string(e.Kv.Value)
				} else {
					ev.typ = "DELETE"
					if e.PrevKv != nil {
						ev.hasPrev, ev.prevVal, ev.prevMod = true, string(e.PrevKv.Value), e.PrevKv.ModRevision
					}
				}
				got = append(got, ev)
			}
			if len(r.Events) > 0 && r.Header.GetRevision() != r.Events[len(r.Events)-1].Kv.ModRevision {
				out.violate(P, "watch-header", "watch-header", "watch response header %d != revision of its last event %d", r.Header.GetRevision(), r.Events[len(r.Events)-1].Kv.ModRevision)
			}
		}
		var want []c16Event
		for _, e := range events {
			if e.seq > ws.from && strings.HasPrefix(e.key, ws.prefix) {
				e.seq = 0
				want = append(want, e)
			}
		}
		sort.SliceStable(want, func(i, j int) bool { return want[i].mod < want[j].mod })
		if len(got) != len(want) {
			out.violate(P, "watch-events", "watch-events", "watch on %s delivered %d events, etcd semantics prescribe %d: got %+v want %+v", ws.prefix, len(got), len(want), got, want)
			continue
		}
		for i := range got {
			if got[i] != want[i] {
				sig := "watch-events"
				if want[i].typ == "DELETE" && !got[i].hasPrev {
					sig = "watch-delete-without-prev-kv"
				}
				out.violate(P, "watch-events", sig, "watch on %s event %d = %+v, etcd semantics prescribe %+v", ws.prefix, i, got[i], want[i])
				break
			}
		}
		if len(got) > 0 {
			out.probe("watch-events-compared")
		}
	}
	for _, ws := range watches {
		ws.stream.Cancel()
	}
	out.NonTrivial = out.Probes["supported-shape-update"] > 0 && out.Probes["unsupported-shape"] > 0
	out.Steps = s.StepNo()
	out.SimMs = s.SimTime().Milliseconds()
	out.Hash = s.Hash()
	out.Hazards = s.Hazards
	reportLockLeaks("C16", w, out)
	out.Ops = len(sc.Clients[0].Ops)
	out.SiteHits = s.SiteHits
	out.StateHash = stateHash(w)
	out.Trace = s.Trace
	if bad := sn.M.Inconsistent(); len(bad) > 0 {
		out.probe("metric-label-sets-inconsistent")
	}
}

func allKeys(m *etcdModel, mv *model.MVCC) []string {
	set := map[string]bool{}
	for k := range m.kv {
		set[k] = true
	}
	for k := range mv.Keys {
		set[k] = true
	}
	var ks []string
	for k := range set {
		ks = append(ks, k)
	}
	sort.Strings(ks)
	return ks
}

func sameEtcdKVs(got []*mvccpb.KeyValue, want []etcdOut) bool {
	if len(got) != len(want) {
		return false
	}
	for i := range got {
		if string(got[i].Key) != want[i].key || string(got[i].Value) != want[i].val || got[i].ModRevision != want[i].mod {
			return false
		}
	}
	return true
}

func fmtEtcdKVs(kvs []*mvccpb.KeyValue) string {
	var b strings.Builder
	b.WriteString("[")
	for _, kv := range kvs {
		fmt.Fprintf(&b, "{%s %s %d} ", kv.Key, kv.Value, kv.ModRevision)
	}
	b.WriteString("]")
	return b.String()
}

func init() {
	register(&Prop{ID: "C16", Gen: genC16, Custom: c16Custom})
}
