package props

import (
	"encoding/hex"
	"fmt"
	"sort"
	"strings"
	"testing"
	"time"

	"verif/sim/rt"
	"verif/sim/simkv"
	"verif/sim/world"
)

// C12 — client-visible behaviour does not depend on the storage engine.
// The same sequential request history is executed on four engine stacks inside
// one bubble, one after the other; the normalised transcripts must be equal.

var c12Stacks = []struct {
	engine  string
	metrics bool
	regions bool // TiKV mock cluster split into several regions at the scenario's borders
}{{"memkv", false, false}, {"badger", false, false}, {"tikv", false, false}, {"badger", true, false}, {"tikv", false, true}}

func genC12(r *rt.Rand, tier string, idx int) *world.Scenario {
	sc := &world.Scenario{Prefix: prefix, InitRev: pickInitRev(r), Seed: r.Uint64(), EtcdCompat: true, Class: "sequential-history-on-4-engine-stacks"}
	keys := []string{prefix + "/a", prefix + "/a/b", prefix + "/b", prefix + "/pods/ns/p1", prefix + "/events/ns/e1"}
	if idx%3 == 0 {
		// a fifth stack: the TiKV mock cluster split into regions at index records and inside keys' versions
		sc.Class = "sequential-history-on-5-engine-stacks"
		for i := 0; i < 1+r.Intn(3); i++ {
			b := simkv.EncodeKey([]byte(keys[r.Intn(len(keys))]), []uint64{0, sc.InitRev + uint64(1+r.Intn(20))}[r.Intn(2)])
			sc.Parts = append(sc.Parts, hex.EncodeToString(b))
		}
	}
	var cl world.Client
	n := 10 + r.Intn(25)
	wid := 0
	for i := 0; i < n; i++ {
		k := keys[r.Intn(len(keys))]
		v := fmt.Sprintf("v%d", i)
		switch r.Weighted(18, 22, 14, 10, 12, 6, 8, 10) {
		case 0:
			cl.Ops = append(cl.Ops, world.Op{K: "create", Key: k, Val: v})
		case 1:
			e := []world.Rev{{M: "known"}, {M: "known"}, {M: "stale", N: 1}, {M: "zero"}, {M: "tomb"}, {M: "future", N: 3}}[r.Intn(6)]
			cl.Ops = append(cl.Ops, world.Op{K: "update", Key: k, Val: v, Rev: e})
		case 2:
			e := []world.Rev{{M: "known"}, {M: "known"}, {M: "stale", N: 1}, {M: "zero"}, {M: "tomb"}}[r.Intn(5)]
			cl.Ops = append(cl.Ops, world.Op{K: "delete", Key: k, Rev: e})
		case 3:
			// (also far back: whatever a compaction left of a key's older versions must be the same everywhere)
			cl.Ops = append(cl.Ops, world.Op{K: "get", Key: k, Rev: []world.Rev{{M: "zero"}, {M: "hdr"}, {M: "hdrminus", N: 2}, {M: "init", N: int64(1 + r.Intn(n))}, {M: "stale", N: int64(1 + r.Intn(3))}}[r.Intn(5)]})
		case 4:
			lim := int64(0)
			if r.Chance(0.5) {
				lim = int64(1 + r.Intn(3))
			}
			cl.Ops = append(cl.Ops, world.Op{K: "list", Key: prefix + "/", End: prefix + "0", Limit: lim, Rev: []world.Rev{{M: "zero"}, {M: "hdr"}, {M: "hdrminus", N: 3}, {M: "init", N: 1}}[r.Intn(4)]})
		case 5:
			cl.Ops = append(cl.Ops, world.Op{K: "count", Key: prefix + "/", End: prefix + "0"})
		case 6:
			cl.Ops = append(cl.Ops, world.Op{K: "compact", Rev: []world.Rev{{M: "zero"}, {M: "hdrminus", N: 2}, {M: "init", N: 2}}[r.Intn(3)]})
			// what is left of every key's past right after the compaction
			for _, kk := range keys {
				for j := 0; j < 2; j++ {
					cl.Ops = append(cl.Ops, world.Op{K: "get", Key: kk, Rev: world.Rev{M: "init", N: int64(1 + r.Intn(i+2))}})
				}
			}
		case 7:
			wid++
			cl.Ops = append(cl.Ops, world.Op{K: "watch", Key: []string{prefix + "/", prefix + "/a"}[r.Intn(2)], W: wid, Consume: "eager",
				Rev: []world.Rev{{M: "zero"}, {M: "hdrplus", N: 1}, {M: "hdr"}, {M: "init", N: 1}}[r.Intn(4)]})
		}
	}
	sc.Clients = []world.Client{cl}
	sc.Extra = map[string]int64{"lockstep": 1}
	return sc
}

func transcript(w *world.World) []string {
	// rank every revision that appears
	set := map[uint64]bool{}
	add := func(r uint64) {
		if r != 0 {
			set[r] = true
		}
	}
	for _, r := range w.Recs {
		add(r.Hdr)
		if r.KV != nil {
			add(r.KV.Rev)
		}
		for _, kv := range r.KVs {
			add(kv.Rev)
		}
	}
	for _, wa := range w.Watchers {
		for _, e := range wa.Events {
			add(e.Rev)
			add(e.KvRev)
		}
	}
	var revs []uint64
	for r := range set {
		revs = append(revs, r)
	}
	sort.Slice(revs, func(i, j int) bool { return revs[i] < revs[j] })
	rank := map[uint64]int{0: 0}
	for i, r := range revs {
		rank[r] = i + 1
	}
	var out []string
	for _, r := range w.Recs {
		if r.Client < 0 {
			continue
		}
		line := fmt.Sprintf("%d %s %s", r.Idx, r.Op.K, r.Op.Key)
		if r.Err != "" {
			out = append(out, line+" ERROR")
			continue
		}
		line += fmt.Sprintf(" ok=%v hdr=r%d", r.OK, rank[r.Hdr])
		if r.Op.K == "compact" {
			line = fmt.Sprintf("%d compact ok=%v", r.Idx, r.OK) // the effective revision is not client-visible data
		}
		if r.KV != nil {
			line += fmt.Sprintf(" kv=%s=%q@r%d", r.KV.Key, r.KV.Val, rank[r.KV.Rev])
		}
		for _, kv := range r.KVs {
			line += fmt.Sprintf(" [%s=%q@r%d]", kv.Key, kv.Val, rank[kv.Rev])
		}
		if r.Op.K == "list" {
			line += fmt.Sprintf(" more=%v", r.More)
		}
		if r.Op.K == "count" {
			line += fmt.Sprintf(" count=%d", r.Count)
		}
		out = append(out, line)
	}
	for _, wa := range w.Watchers {
		line := fmt.Sprintf("watch %d refused=%v closed=%v:", wa.ID, wa.Refused != "", wa.Closed)
		for _, e := range wa.Events {
			line += fmt.Sprintf(" %s %s=%q@r%d/r%d", e.Type, e.Key, e.Val, rank[e.Rev], rank[e.KvRev])
		}
		out = append(out, line)
	}
	return out
}

func c12Custom(t *testing.T, sc *world.Scenario, out *Outcome) {
	const P = "C12"
	var ref []string
	refName := ""
	for _, st := range c12Stacks {
		s2 := sc.Clone()
		s2.Engine, s2.MetricsKV = st.engine, st.metrics
		name := st.engine
		if st.metrics {
			name += "+metrics"
		}
		s2.Parts = nil
		if st.regions {
			if len(sc.Parts) == 0 {
				continue
			}
			name += "+regions"
			s2.Parts = sc.Parts
			if s2.Extra == nil {
				s2.Extra = map[string]int64{}
			}
			s2.Extra["tikv_regions"] = 1
			out.probe("stack-tikv-with-several-regions")
		}
		w, err := world.New(s2)
		if err != nil {
			out.Infra = err.Error()
			return
		}
		n := w.AddNode()
		n.B.SetCurrentRevision(sc.InitRev)
		w.Start()
		w.Run()
		w.Idle(2*time.Second, 3000)
		w.DrainWatchers()
		tr := transcript(w)
		reportLockLeaks("C12", w, out)
		out.Steps += w.S.StepNo()
		out.Ops += len(w.Recs)
		out.Hash = rt.Mix(out.Hash, w.S.Hash())
		stuck := w.Stuck
		for _, r := range w.Recs {
			if r.Op.K == "update" && !r.OK && r.Err == "" && r.KV == nil {
				out.probe("guarded-update-of-absent-key")
			}
			if r.Op.K == "compact" && r.OK {
				out.probe("compaction-in-history")
			}
		}
		w.Teardown()
		if stuck {
			out.Inconclusive = "run on " + name + " did not finish"
			return
		}
		if ref == nil {
			ref, refName = tr, name
			continue
		}
		for i := 0; i < len(ref) || i < len(tr); i++ {
			a, b := "<missing>", "<missing>"
			if i < len(ref) {
				a = ref[i]
			}
			if i < len(tr) {
				b = tr[i]
			}
			if a != b {
				kind := strings.Fields(a + " x x")[1]
				out.violate(P, "engine-dependent-behaviour", fmt.Sprintf("engine-dependent-behaviour %s-vs-%s op=%s", refName, name, kind),
					"the same request history behaves differently on %s and %s at transcript line %d:\n %s: %s\n %s: %s", refName, name, i, refName, a, name, b)
				break
			}
		}
	}
	out.NonTrivial = len(ref) > 5
	out.StateHash = rt.HashStrings(ref)
}

func init() {
	register(&Prop{ID: "C12", Gen: genC12, Custom: c12Custom})
}
