module verif/sim

go 1.26

require (
	github.com/anishathalye/porcupine v1.3.0
	github.com/kubewharf/kubebrain v0.0.0
	github.com/kubewharf/kubebrain-client v0.2.1
	github.com/pingcap/kvproto v0.0.0-20220106070556-3fa8fa04f898
	github.com/tikv/client-go/v2 v2.0.1
	go.etcd.io/etcd/api/v3 v3.5.2
	google.golang.org/grpc v1.43.0
	k8s.io/apimachinery v0.20.4
	k8s.io/client-go v0.20.2
	k8s.io/klog/v2 v2.4.0
)

require (
	github.com/AndreasBriese/bbloom v0.0.0-20190825152654-46b345b51c96 // indirect
	github.com/benbjohnson/clock v1.1.0 // indirect
	github.com/beorn7/perks v1.0.1 // indirect
	github.com/cespare/xxhash v1.1.0 // indirect
	github.com/cespare/xxhash/v2 v2.1.2 // indirect
	github.com/coreos/go-semver v0.3.0 // indirect
	github.com/coreos/go-systemd/v22 v22.3.2 // indirect
	github.com/cznic/mathutil v0.0.0-20181122101859-297441e03548 // indirect
	github.com/davecgh/go-spew v1.1.1 // indirect
	github.com/dgraph-io/badger v1.6.2 // indirect
	github.com/dgraph-io/ristretto v0.0.2 // indirect
	github.com/dgryski/go-farm v0.0.0-20190423205320-6a90982ecee2 // indirect
	github.com/dustin/go-humanize v1.0.0 // indirect
	github.com/go-logr/logr v0.2.0 // indirect
	github.com/gogo/googleapis v1.4.0 // indirect
	github.com/gogo/protobuf v1.3.2 // indirect
	github.com/golang/protobuf v1.5.2 // indirect
	github.com/golang/snappy v0.0.2-0.20190904063534-ff6b7dc882cf // indirect
	github.com/google/btree v1.0.1 // indirect
	github.com/google/gofuzz v1.0.0 // indirect
	github.com/google/uuid v1.3.0 // indirect
	github.com/grpc-ecosystem/go-grpc-middleware v1.3.0 // indirect
	github.com/grpc-ecosystem/go-grpc-prometheus v1.2.0 // indirect
	github.com/huandu/skiplist v1.1.0 // indirect
	github.com/json-iterator/go v1.1.12 // indirect
	github.com/matttproud/golang_protobuf_extensions v1.0.2-0.20181231171920-c182affec369 // indirect
	github.com/modern-go/concurrent v0.0.0-20180306012644-bacd9c7ef1dd // indirect
	github.com/modern-go/reflect2 v1.0.2 // indirect
	github.com/opentracing/opentracing-go v1.2.0 // indirect
	github.com/pingcap/errors v0.11.5-0.20211224045212-9687c2b0f87c // indirect
	github.com/pingcap/failpoint v0.0.0-20210918120811-547c13e3eb00 // indirect
	github.com/pingcap/goleveldb v0.0.0-20191226122134-f82aafb29989 // indirect
	github.com/pingcap/log v0.0.0-20211215031037-e024ba4eb0ee // indirect
	github.com/pkg/errors v0.9.1 // indirect
	github.com/prometheus/client_golang v1.12.1 // indirect
	github.com/prometheus/client_model v0.2.0 // indirect
	github.com/prometheus/common v0.32.1 // indirect
	github.com/prometheus/procfs v0.7.3 // indirect
	github.com/remyoudompheng/bigfft v0.0.0-20200410134404-eec4a21b6bb0 // indirect
	github.com/spf13/cast v1.3.0 // indirect
	github.com/tikv/pd/client v0.0.0-20220216070739-26c668271201 // indirect
	github.com/twmb/murmur3 v1.1.3 // indirect
	go.etcd.io/etcd/client/pkg/v3 v3.5.2 // indirect
	go.etcd.io/etcd/client/v3 v3.5.2 // indirect
	go.uber.org/atomic v1.9.0 // indirect
	go.uber.org/multierr v1.7.0 // indirect
	go.uber.org/zap v1.20.0 // indirect
	golang.org/x/crypto v0.0.0-20200622213623-75b288015ac9 // indirect
	golang.org/x/net v0.0.0-20210525063256-abc453219eb5 // indirect
	golang.org/x/oauth2 v0.0.0-20210514164344-f6687ab2804c // indirect
	golang.org/x/sync v0.0.0-20210220032951-036812b2e83c // indirect
	golang.org/x/sys v0.0.0-20220114195835-da31bd327af9 // indirect
	golang.org/x/text v0.3.6 // indirect
	golang.org/x/time v0.0.0-20211116232009-f0f3c7e86c11 // indirect
	google.golang.org/appengine v1.6.6 // indirect
	google.golang.org/genproto v0.0.0-20210602131652-f16073e35f0c // indirect
	google.golang.org/protobuf v1.26.0 // indirect
	gopkg.in/inf.v0 v0.9.1 // indirect
	gopkg.in/natefinch/lumberjack.v2 v2.0.0 // indirect
	gopkg.in/yaml.v2 v2.4.0 // indirect
	k8s.io/api v0.20.4 // indirect
	k8s.io/klog v0.3.0 // indirect
	k8s.io/utils v0.0.0-20201110183641-67b214c5f920 // indirect
	sigs.k8s.io/yaml v1.2.0 // indirect
)

replace github.com/kubewharf/kubebrain => /repo

// klog v2.4.0 with one change: Fatal calls a hook instead of os.Exit when the simulator sets one
replace k8s.io/klog/v2 => ./third_party/klog

replace (
	github.com/googleapis/gnostic => github.com/googleapis/gnostic v0.3.1
	google.golang.org/grpc => google.golang.org/grpc v1.38.0
	k8s.io/api => k8s.io/api v0.0.0-20191004102349-159aefb8556b
	k8s.io/apiextensions-apiserver => k8s.io/apiextensions-apiserver v0.0.0-20191004105649-b14e3c49469a
	k8s.io/apimachinery => k8s.io/apimachinery v0.0.0-20191004074956-c5d2f014d689
	k8s.io/apiserver => k8s.io/apiserver v0.0.0-20191109015554-8577c320c87f
	k8s.io/cli-runtime => k8s.io/cli-runtime v0.0.0-20191004110135-b9eb767d2e1a
	k8s.io/client-go => k8s.io/client-go v11.0.1-0.20191029005444-8e4128053008+incompatible
	k8s.io/cloud-provider => k8s.io/cloud-provider v0.0.0-20191002184608-9779a9fba520
	k8s.io/csi-translation-lib => k8s.io/csi-translation-lib v0.0.0-20191016015547-9213b55ba309
	k8s.io/kube-openapi => k8s.io/kube-openapi v0.0.0-20190228160746-b3a7cee44a30
	k8s.io/kubernetes => k8s.io/kubernetes v1.14.8
	k8s.io/metrics => k8s.io/metrics v0.0.0-20191004105854-2e8cf7d0888c
	k8s.io/utils => k8s.io/utils v0.0.0-20200327001022-6496210b90e8
)
