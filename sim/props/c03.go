package props

import (
	"encoding/hex"
	"fmt"
	"strings"

	"verif/sim/model"
	"verif/sim/rt"
	"verif/sim/simkv"
	"verif/sim/world"
)

// C03 — a read at a revision returns exactly the MVCC snapshot at that revision.

var c03Keys = []string{prefix + "/a", prefix + "/a/b", prefix + "/a-b", prefix + "/ab", prefix + "/a/b/c", prefix + "/b",
	prefix + "/events/ns/e1", prefix + "/pods/events/p1", "/other/x", prefix + "0"}

var c03Bounds = []string{prefix + "/", prefix + "0", prefix + "/a", prefix + "/a/", prefix + "/a0", prefix + "/a/b", prefix + "/a-", prefix + "/ab",
	prefix + "/b", prefix + "/c", "/", "/other/", "/other0", "/registrz", prefix, prefix + "/a/b/", prefix + "/a/b0", "0"}

func c03Value(r *rt.Rand, tag string) string {
	switch r.Weighted(70, 6, 6, 6, 6, 6) {
	case 1:
		return "tombstone"
	case 2:
		return "hex:0000000000000001" // 8 bytes: looks like an index record
	case 3:
		return "hex:000000000000000100" // 9 bytes: looks like a deleted index record
	case 4:
		return "hex:80ff00fe" + fmt.Sprintf("%x", tag)
	case 5:
		return "tombstone" + tag
	}
	return "v" + tag
}

func genC03(r *rt.Rand, tier string, idx int) *world.Scenario {
	sc := &world.Scenario{Prefix: prefix, InitRev: pickInitRev(r), Seed: r.Uint64(), EtcdCompat: true}
	sc.Engine, sc.MetricsKV = pickEngine(r, tier)
	sc.Free.LimitHint = r.Chance(0.3)
	sc.Free.ConflictPlain = r.Chance(0.2)
	concurrent := idx%3 == 2
	sc.Class = "sequential-history"
	nk := 2 + r.Intn(6)
	perm := r.Perm(len(c03Keys))
	keys := make([]string, nk)
	for i := range keys {
		keys[i] = c03Keys[perm[i]]
	}
	nw := 10 + r.Intn(40)
	if sc.Engine != "memkv" {
		nw = 8 + r.Intn(20)
	}
	writer := func(c int, n int) world.Client {
		var cl world.Client
		for i := 0; i < n; i++ {
			k := keys[r.Intn(len(keys))]
			v := c03Value(r, fmt.Sprintf("%d.%d", c, i))
			switch r.Weighted(30, 35, 20, 5, 10) {
			case 0:
				cl.Ops = append(cl.Ops, world.Op{K: "create", Key: k, Val: v})
			case 1:
				e := world.Rev{M: "known"}
				if r.Chance(0.2) {
					e = world.Rev{M: "stale", N: 1}
				}
				cl.Ops = append(cl.Ops, world.Op{K: "update", Key: k, Val: v, Rev: e})
			case 2:
				e := world.Rev{M: "known"}
				if r.Chance(0.3) {
					e = world.Rev{M: "zero"}
				}
				cl.Ops = append(cl.Ops, world.Op{K: "delete", Key: k, Rev: e})
			case 3:
				cl.Ops = append(cl.Ops, world.Op{K: "get", Key: k})
			case 4:
				cl.Ops = append(cl.Ops, c03Read(r, keys))
			}
		}
		return cl
	}
	reads := func(n int) []world.Op {
		var ops []world.Op
		for i := 0; i < n; i++ {
			ops = append(ops, c03Read(r, keys))
		}
		return ops
	}
	if !concurrent {
		cl := writer(0, nw)
		cl.Ops = append(cl.Ops, world.Op{K: "waitcommitted"})
		first := reads(8 + r.Intn(20))
		cl.Ops = append(cl.Ops, first...)
		// further writes, maybe a compaction, then ask the same questions again
		more := writer(1, 3+r.Intn(10))
		cl.Ops = append(cl.Ops, more.Ops...)
		cl.Ops = append(cl.Ops, world.Op{K: "waitcommitted"})
		if r.Chance(0.4) {
			cl.Ops = append(cl.Ops, world.Op{K: "compact", Rev: world.Rev{M: "init", N: int64(1 + r.Intn(nw))}})
		}
		cl.Ops = append(cl.Ops, first...)
		cl.Ops = append(cl.Ops, reads(5+r.Intn(10))...)
		sc.Clients = []world.Client{cl}
	} else {
		sc.Class = "concurrent-readers-and-writers"
		sc.Inactive = swarmSites(r, "kv.commit", "kv.commit.ret")
		nwr := 1 + r.Intn(2)
		for c := 0; c < nwr; c++ {
			sc.Clients = append(sc.Clients, writer(c, nw/nwr+1))
		}
		if r.Chance(0.4) {
			// a compaction runs while the readers read: a read not below the floor is still exact at every
			// moment of the compaction (a read below it may be refused)
			sc.Class += "+compaction"
			if r.Chance(0.5) {
				if sc.Extra == nil {
					sc.Extra = map[string]int64{}
				}
				sc.Extra["stall:kv.iter"] = int64(20 + r.Intn(300))
			}
			var cl world.Client
			for i := 0; i < 1+r.Intn(2); i++ {
				cl.Ops = append(cl.Ops, world.Op{K: "get", Key: keys[0]}, world.Op{K: "compact", Rev: world.Rev{M: "committed", N: -int64(r.Intn(4))}})
			}
			sc.Clients = append(sc.Clients, cl)
		}
		for c := 0; c < 1+r.Intn(2); c++ {
			var cl world.Client
			first := reads(6 + r.Intn(10))
			cl.Ops = append(cl.Ops, first...)
			cl.Ops = append(cl.Ops, reads(4+r.Intn(8))...)
			cl.Ops = append(cl.Ops, first...)
			sc.Clients = append(sc.Clients, cl)
		}
	}
	if idx%5 == 1 {
		// reads must not depend on how the engine partitions the scanned interval either (see C13)
		sc.Class += "+partitions"
		for i := 0; i < 1+r.Intn(3); i++ {
			b := simkv.EncodeKey([]byte(keys[r.Intn(len(keys))]), []uint64{0, sc.InitRev + uint64(1+r.Intn(nw))}[r.Intn(2)])
			sc.Parts = append(sc.Parts, hex.EncodeToString(b))
		}
		if idx%10 == 6 {
			// ... as real regions of the TiKV mock cluster, so that the adapter computes the partitions
			sc.Class += "(tikv regions)"
			sc.Engine = "tikv"
			if sc.Extra == nil {
				sc.Extra = map[string]int64{}
			}
			sc.Extra["tikv_regions"] = 1
		}
	}
	if idx%10 == 9 {
		sc.Class += "+read-errors"
		sc.Rates.ReadErr = 0.02 + 0.05*r.Float64()
	}
	sc.MaxSteps = 60000
	return sc
}

func c03Read(r *rt.Rand, keys []string) world.Op {
	rev := func() world.Rev {
		switch r.Weighted(25, 45, 15, 15) {
		case 0:
			return world.Rev{M: "zero"}
		case 1:
			return world.Rev{M: "init", N: int64(r.Intn(70))} // any revision from the first on
		case 2:
			return world.Rev{M: "hdr"}
		}
		return world.Rev{M: "hdrminus", N: int64(1 + r.Intn(5))}
	}
	switch r.Weighted(30, 55, 15) {
	case 0:
		k := keys[r.Intn(len(keys))]
		if r.Chance(0.15) {
			k = c03Bounds[r.Intn(len(c03Bounds))]
		}
		return world.Op{K: "get", Key: k, Rev: rev()}
	case 1:
		a, b := c03Bounds[r.Intn(len(c03Bounds))], c03Bounds[r.Intn(len(c03Bounds))]
		if r.Chance(0.4) {
			a, b = prefix+"/", prefix+"0"
		}
		if a > b {
			a, b = b, a
		}
		lim := int64(0)
		if r.Chance(0.6) {
			lim = int64(r.Intn(len(keys) + 2))
		}
		return world.Op{K: "list", Key: a, End: b, Rev: rev(), Limit: lim}
	}
	a, b := c03Bounds[r.Intn(len(c03Bounds))], c03Bounds[r.Intn(len(c03Bounds))]
	if a > b {
		a, b = b, a
	}
	return world.Op{K: "count", Key: a, End: b}
}

func kvsOf(kvs []world.KV) []model.KV {
	out := make([]model.KV, len(kvs))
	for i, kv := range kvs {
		out[i] = model.KV{Key: kv.Key, Val: []byte(kv.Val), Rev: kv.Rev}
	}
	return out
}

func valueClass(v []byte) string {
	switch {
	case string(v) == "tombstone":
		return ` value=="tombstone"`
	}
	return ""
}

// markerModel is the reference model with the suspected defect S6 built in: a
// version whose *value* equals the reserved marker is treated as a deletion. It
// is used only to classify a mismatch (known finding vs. anything else).
func markerModel(m *model.MVCC) *model.MVCC {
	m2 := &model.MVCC{Keys: map[string][]model.Ver{}}
	for k, vs := range m.Keys {
		for _, v := range vs {
			if string(v.Val) == "tombstone" {
				v.Tomb = true
			}
			m2.Keys[k] = append(m2.Keys[k], v)
		}
	}
	return m2
}

func checkC03(c *Ctx) {
	const P = "C03"
	w, out, m := c.W, c.Out, c.M
	m2 := markerModel(m)
	tl := buildTimeline(w.KV.GT)
	// floor: highest accepted compaction so far, by return step
	type comp struct {
		ret uint64
		rev uint64
	}
	var comps []comp
	for _, r := range w.Recs {
		if r.Op.K == "compact" && r.Done {
			comps = append(comps, comp{r.Inv, r.Hdr})
		}
	}
	floorAt := func(step uint64) uint64 {
		var f uint64
		for _, cp := range comps {
			if cp.ret <= step && cp.rev > f {
				f = cp.rev
			}
		}
		return f
	}
	historical := 0
	for _, r := range w.Recs {
		if !r.Done || r.Client == -2 {
			continue
		}
		if r.Err != "" {
			continue // a read may fail (C08 / injected read errors), never differ
		}
		switch r.Op.K {
		case "get":
			key := string(world.Bytes(r.Op.Key))
			if r.RevAbs == 0 {
				// reads the newest stored version: must be a state of the key during the call
				sts := tl.StatesDuring(key, r.Inv, r.Ret)
				ok := false
				for _, st := range sts {
					if (!st.Exists && r.KV == nil) || (st.Exists && r.KV != nil && r.KV.Rev == st.Rev && r.KV.Val == st.Val) {
						ok = true
					}
				}
				if !ok {
					cls := ""
					for _, st := range sts {
						if st.Exists && st.Val == "tombstone" && r.KV == nil {
							cls = valueClass([]byte(st.Val))
						}
					}
					out.violate(P, "get-latest", "get-latest"+cls, "Get(%s, rev 0) returned %+v; states of the key during the call: %+v", key, r.KV, sts)
				}
				continue
			}
			if r.RevAbs > r.ComInv || r.RevAbs < floorAt(r.Ret) {
				continue
			}
			historical++
			v, ok := m.At(key, r.RevAbs)
			exists := ok && !v.Tomb
			if exists != (r.KV != nil) || (exists && (r.KV.Rev != v.Rev || r.KV.Val != string(v.Val))) {
				cls := ""
				if v2, ok2 := m2.At(key, r.RevAbs); ok2 && v2.Tomb && !v.Tomb && r.KV == nil {
					cls = valueClass(v.Val)
				}
				out.violate(P, "get-at-revision", "get-at-revision"+cls, "Get(%s, rev %d) returned %+v; model: exists=%v rev=%d val=%q", key, r.RevAbs, r.KV, exists, v.Rev, v.Val)
			}
		case "list":
			R := r.RevAbs
			if R == 0 {
				R = r.Hdr
			}
			if R > r.ComInv && r.RevAbs != 0 {
				continue // not yet reported as readable
			}
			if R < floorAt(r.Ret) {
				continue
			}
			if r.RevAbs != 0 {
				historical++
			}
			snap := m.Snap(R, string(world.Bytes(r.Op.Key)), string(world.Bytes(r.Op.End)))
			want := snap
			more := false
			if r.Op.Limit > 0 && int64(len(snap)) > r.Op.Limit {
				want = snap[:r.Op.Limit]
				more = true
			}
			got := kvsOf(r.KVs)
			if !model.EqualKVs(got, want) || more != r.More {
				cls := ""
				snap2 := m2.Snap(R, string(world.Bytes(r.Op.Key)), string(world.Bytes(r.Op.End)))
				want2, more2 := snap2, false
				if r.Op.Limit > 0 && int64(len(snap2)) > r.Op.Limit {
					want2, more2 = snap2[:r.Op.Limit], true
				}
				if model.EqualKVs(got, want2) && more2 == r.More {
					cls = ` value=="tombstone"`
				}
				out.violate(P, "list-snapshot", "list-snapshot"+cls, "List[%s,%s) rev=%d (effective %d) limit=%d returned %d kvs more=%v; model %d kvs more=%v\n got=%v\nwant=%v",
					r.Op.Key, r.Op.End, r.RevAbs, R, r.Op.Limit, len(got), r.More, len(want), more, fmtKVs(got), fmtKVs(want))
			}
		case "count":
			R := r.Hdr
			if R > r.ComRet || R < floorAt(r.Ret) {
				continue
			}
			snap := m.Snap(R, string(world.Bytes(r.Op.Key)), string(world.Bytes(r.Op.End)))
			if uint64(len(snap)) != r.Count {
				cls := ""
				if uint64(len(m2.Snap(R, string(world.Bytes(r.Op.Key)), string(world.Bytes(r.Op.End))))) == r.Count {
					cls = ` value=="tombstone"`
				}
				out.violate(P, "count", "count"+cls, "Count[%s,%s) at header %d returned %d, model %d", r.Op.Key, r.Op.End, R, r.Count, len(snap))
			}
		}
	}
	if historical > 0 {
		out.NonTrivial = true
		out.probe("read-at-historical-revision")
	}
	for _, r := range w.Recs {
		if r.Op.K == "list" && r.More {
			out.probe("limit-cut-result")
		}
		if r.Op.K == "compact" && r.Done && r.Err == "" {
			out.probe("compaction-before-reread")
		}
	}
}

func fmtKVs(kvs []model.KV) string {
	var b strings.Builder
	for _, kv := range kvs {
		fmt.Fprintf(&b, "%s@%d=%q ", kv.Key, kv.Rev, kv.Val)
	}
	return b.String()
}

func init() {
	register(&Prop{ID: "C03", Gen: genC03, Check: checkC03})
}
