package props

import (
	"encoding/binary"
	"encoding/hex"
	"fmt"
	"sort"
	"strings"

	"verif/sim/model"
	"verif/sim/rt"
	"verif/sim/simkv"
	"verif/sim/world"
)

// C07 — compaction never changes what a read at or above the compaction revision sees.

var c07Keys = []string{prefix + "/a", prefix + "/a/b", prefix + "/b", prefix + "/c/x", prefix + "/skip/x", prefix + "/skip/sub/y", prefix + "-x/k", "/other/x", "/tenant-b/x", prefix + "/skip.io/l", prefix + "/skip-2/m"}

var c07Skips = [][]string{nil, nil, {prefix + "/skip"}, {prefix + "/skip", prefix + "/c"}, {prefix + "/skip", prefix + "/skip/sub"}, {prefix + "-x"}, {"/zzz"}, {prefix + "/skip", "/zzz"},
	// one skipped prefix is a string prefix of another that goes on with a byte below the separator
	{prefix + "/skip", prefix + "/skip.io"}, {prefix + "/skip.io", prefix + "/skip"}, {prefix + "/skip-2", prefix + "/skip", prefix + "/c"}}

const c07Variants = 48

func genC07(r *rt.Rand, tier string, idx int) *world.Scenario {
	V := c07Variants
	h, v := idx/V, idx%V
	rh := rt.NewRand(rt.Mix(rt.MixStr(BaseSeed, "C07-history"), uint64(h)))
	sc := &world.Scenario{Prefix: prefix, InitRev: pickInitRev(rh), Seed: r.Uint64(), EtcdCompat: true}
	sc.Engine, sc.MetricsKV = pickEngine(rh, tier)
	sc.Skipped = c07Skips[rh.Intn(len(c07Skips))]
	nk := 2 + rh.Intn(5)
	perm := rh.Perm(len(c07Keys))
	keys := make([]string, nk)
	for i := range keys {
		keys[i] = c07Keys[perm[i]]
	}
	// the history: sequential, mostly successful, producing multi-version keys, tombstones and re-created keys
	n := 6 + rh.Intn(25)
	if sc.Engine != "memkv" {
		n = 6 + rh.Intn(14)
	}
	live := map[string]bool{}
	for i := 0; i < n; i++ {
		k := keys[rh.Intn(len(keys))]
		val := fmt.Sprintf("h%d", i)
		if rh.Chance(0.12) {
			// a user value that looks like one of the store's own records: 8 bytes of a revision at or below
			// the compaction revision, with or without a flag byte
			var rec [9]byte
			binary.BigEndian.PutUint64(rec[:8], sc.InitRev+uint64(rh.Intn(n+2)))
			rec[8] = []byte{0x21, 0x01, 0x00, 0xff}[rh.Intn(4)]
			val = "hex:" + hex.EncodeToString(rec[:8+rh.Intn(2)])
		}
		switch {
		case !live[k]:
			sc.Prologue = append(sc.Prologue, world.Op{K: "create", Key: k, Val: val})
			live[k] = true
		case rh.Chance(0.35):
			sc.Prologue = append(sc.Prologue, world.Op{K: "delete", Key: k, Rev: world.Rev{M: "known"}})
			live[k] = false
		default:
			sc.Prologue = append(sc.Prologue, world.Op{K: "update", Key: k, Val: val, Rev: world.Rev{M: "known"}})
		}
	}
	sc.Prologue = append(sc.Prologue, world.Op{K: "waitcommitted"})
	R := world.Rev{M: "init", N: int64(1 + rh.Intn(n))}
	if rh.Chance(0.2) {
		R = world.Rev{M: "zero"}
	}
	compact := world.Op{K: "compact", Rev: R}
	sc.Clients = []world.Client{{Ops: []world.Op{compact}}}
	sc.Extra = map[string]int64{}
	if h%5 == 2 {
		// a write whose outcome is unknown waits in the retry queue while the compaction is requested
		kk := keys[rh.Intn(len(keys))]
		pending := world.Op{K: "update", Key: kk, Val: "pending", Rev: world.Rev{M: "known"}}
		sc.Clients[0].Ops = []world.Op{pending, compact}
		sc.Plan = append(sc.Plan, &simkv.Fault{Op: "commit", Class: "data", Who: "client", Nth: 1, Effect: []string{"uncertain-applied", "uncertain-lost"}[rh.Intn(2)]})
		sc.Extra["keep_faults"] = 1
	}
	switch {
	case v == 0:
		sc.Class = "compaction-no-fault"
	case v <= 32:
		k, kind := (v-1)/4+1, []string{"err", "uncertain-applied", "uncertain-lost", "cas"}[(v-1)%4]
		sc.Class = "compaction-single-delete-failure"
		sc.Plan = append(sc.Plan, &simkv.Fault{Op: "anydel", Nth: k, Effect: kind})
	case v <= 40:
		sc.Class = "compactor-crash"
		sc.Plan = append(sc.Plan, &simkv.Fault{Op: "anydel", Nth: v - 32, Effect: "crash-after"})
		sc.Extra["crash"] = 1
	case v <= 44:
		sc.Class = "compaction-random-delete-failures"
		sc.Rates.DelErr = 0.15 + 0.4*r.Float64()
	default:
		sc.Class = "compaction-racing-writers"
		sc.Inactive = swarmSites(r, "kv.del", "kv.delcur", "kv.commit")
		for c := 0; c < 1+r.Intn(2); c++ {
			var cl world.Client
			for i := 0; i < 3+r.Intn(6); i++ {
				k := keys[r.Intn(len(keys))]
				val := fmt.Sprintf("w%d.%d", c, i)
				switch r.Weighted(35, 30, 25, 10) {
				case 0:
					cl.Ops = append(cl.Ops, world.Op{K: "create", Key: k, Val: val})
				case 1:
					cl.Ops = append(cl.Ops, world.Op{K: "get", Key: k}, world.Op{K: "update", Key: k, Val: val, Rev: world.Rev{M: "known"}})
				case 2:
					cl.Ops = append(cl.Ops, world.Op{K: "delete", Key: k, Rev: world.Rev{M: "zero"}})
				case 3:
					cl.Ops = append(cl.Ops, world.Op{K: "compact", Rev: world.Rev{M: "committed", N: -int64(r.Intn(4))}})
				}
			}
			sc.Clients = append(sc.Clients, cl)
		}
		if r.Chance(0.3) {
			sc.Rates.DelErr = 0.2 * r.Float64()
		}
	}
	sc.Extra["second_compaction"] = int64(r.Intn(3)) // 0 none, 1 same revision, 2 current
	if h%5 == 2 {
		sc.Class += "+pending-unknown-outcome"
	}
	// the compaction scan is split along the engine's partitions: borders on index records and inside
	// keys' versions, from the seam (any engine) or as real regions of the TiKV mock cluster
	if h%3 == 1 {
		rp := rt.NewRand(rt.Mix(rt.MixStr(BaseSeed, "C07-partitions"), uint64(h)))
		for i := 0; i < 1+rp.Intn(3); i++ {
			b := simkv.EncodeKey([]byte(keys[rp.Intn(len(keys))]), []uint64{0, sc.InitRev + uint64(1+rp.Intn(n))}[rp.Intn(2)])
			sc.Parts = append(sc.Parts, hex.EncodeToString(b))
		}
		sc.Class += "+partitions"
		if h%12 == 4 {
			sc.Engine, sc.MetricsKV = "tikv", false
			sc.Extra["tikv_regions"] = 1
			sc.Class += "(tikv regions)"
		}
	}
	sc.MaxSteps = 40000
	return sc
}

// inCompactionRange: under the prefix and under no skipped prefix.
func inCompactionRange(sc *world.Scenario, raw string) bool {
	if !strings.HasPrefix(raw, sc.Prefix+"/") {
		return false
	}
	for _, s := range sc.Skipped {
		if strings.HasPrefix(raw, s+"/") {
			return false
		}
	}
	return true
}

func skipClass(sc *world.Scenario) string {
	// configurations whose skipped prefixes are nested or lie outside "<prefix>/" are named in the signature
	for i, a := range sc.Skipped {
		if !strings.HasPrefix(a, sc.Prefix+"/") {
			return " skipped-prefix-outside-prefix-dir"
		}
		for j, b := range sc.Skipped {
			if i != j && strings.HasPrefix(b+"/", a+"/") {
				return " nested-skipped-prefixes"
			}
		}
	}
	return ""
}

// c07Epilogue verifies reads at every revision >= R_eff, compacts again, verifies again, then checks writability.
func c07Epilogue(c *Ctx) {
	w, sc, out := c.W, c.Sc, c.Out
	const P = "C07"
	node := 0
	if sc.Extra["crash"] != 0 && w.S.NodeDead(0) {
		out.probe("compactor-crashed")
		com := w.Nodes[0].B.GetCurrentRevision()
		n1 := w.AddNode()
		n1.B.SetCurrentRevision(com)
		node = 1
	}
	// effective compaction revision: the highest among compactions of this run
	var reff uint64
	for _, r := range w.Recs {
		if r.Op.K != "compact" {
			continue
		}
		e := r.Hdr
		if !r.Done { // crashed mid-way: the clamped request
			e = r.RevAbs
			if e == 0 || e > r.ComInv {
				e = r.ComInv
			}
		}
		if e > reff {
			reff = e
		}
	}
	keys := map[string]bool{}
	for _, op := range sc.Prologue {
		if op.Key != "" {
			keys[op.Key] = true
		}
	}
	for _, cl := range sc.Clients {
		for _, op := range cl.Ops {
			if op.Key != "" {
				keys[op.Key] = true
			}
		}
	}
	var ks []string
	for k := range keys {
		ks = append(ks, k)
	}
	sort.Strings(ks)
	verify := func(phase string) {
		m := model.FromGT(w.KV.GT)
		com := w.Nodes[node].B.GetCurrentRevision()
		revs := []uint64{0}
		for R := reff; R <= com && len(revs) < 14; R++ {
			revs = append(revs, R)
		}
		if com > reff+12 {
			revs = append(revs, com)
		}
		for _, R := range revs {
			for _, rng := range [][2]string{{"/", "0"}, {sc.Prefix + "/", sc.Prefix + "0"}} {
				r := w.ProbeOp(world.Op{K: "list", Key: rng[0], End: rng[1], Rev: world.Rev{M: "abs", N: int64(R)}, Node: node})
				if r == nil || r.Err != "" {
					if r != nil {
						out.violate(P, "read-refused-at-or-above-compaction", "read-refused-at-or-above-compaction", "%s: List at revision %d (compacted at %d, committed %d) failed: %s", phase, R, reff, com, r.Err)
					}
					continue
				}
				eff := R
				if eff == 0 {
					eff = r.Hdr
				}
				want := m.Snap(eff, rng[0], rng[1])
				got := kvsOf(r.KVs)
				if !model.EqualKVs(got, want) {
					sig := "read-changed-by-compaction"
					// classify: is the difference confined to keys outside the compaction ranges?
					outside := true
					for _, d := range diffKeys(got, want) {
						if inCompactionRange(sc, d) {
							outside = false
						}
					}
					if outside {
						sig = "key-outside-compaction-range-touched" + skipClass(sc)
					}
					out.violate(P, strings.Fields(sig)[0], sig, "%s: List[%s,%s) at revision %d after compaction at %d:\n got=%s\nwant=%s", phase, rng[0], rng[1], R, reff, fmtKVs(got), fmtKVs(want))
				}
			}
			for _, k := range ks {
				r := w.ProbeOp(world.Op{K: "get", Key: k, Rev: world.Rev{M: "abs", N: int64(R)}, Node: node})
				if r == nil || r.Err != "" {
					continue
				}
				v, ok := m.At(k, R)
				exists := ok && !v.Tomb
				if exists != (r.KV != nil) || (exists && (r.KV.Rev != v.Rev || r.KV.Val != string(v.Val))) {
					sig := "read-changed-by-compaction"
					if !inCompactionRange(sc, k) {
						sig = "key-outside-compaction-range-touched" + skipClass(sc)
					}
					what := "vanished"
					if r.KV != nil && !exists {
						what = "reappeared"
					}
					out.violate(P, strings.Fields(sig)[0], sig, "%s: Get(%s) at revision %d after compaction at %d returned %+v, model exists=%v rev=%d val=%q (%s)", phase, k, R, reff, r.KV, exists, v.Rev, v.Val, what)
				}
			}
		}
	}
	ok := w.RunTask("c07-verify", -1, 60000, func() {
		verify("after compaction")
		if x := sc.Extra["second_compaction"]; x != 0 {
			cr := world.Rev{M: "abs", N: int64(reff)}
			if x == 2 {
				cr = world.Rev{M: "zero"}
			}
			r := w.ProbeOp(world.Op{K: "compact", Rev: cr, Node: node})
			if r != nil && r.Err == "" {
				if r.Hdr > reff {
					reff = r.Hdr
				}
				out.probe("second-compaction")
				verify("after second compaction")
			}
		}
		// every key stays writable with normal semantics
		m := model.FromGT(w.KV.GT)
		for _, k := range ks {
			v, okv := m.At(k, 0)
			if !okv || v.Tomb {
				r := w.ProbeOp(world.Op{K: "create", Key: k, Val: "after-" + k, Node: node})
				if r != nil && r.Err == "" && !r.OK {
					out.violate(P, "not-writable-after-compaction", "not-writable-after-compaction op=create", "create of absent key %s refused after compaction", k)
				}
				if r != nil && r.Err != "" {
					out.violate(P, "not-writable-after-compaction", "not-writable-after-compaction op=create", "create of absent key %s failed after compaction: %s", k, r.Err)
				}
				continue
			}
			r := w.ProbeOp(world.Op{K: "update", Key: k, Val: "after-" + k, Rev: world.Rev{M: "abs", N: int64(v.Rev)}, Node: node})
			if r != nil && (r.Err != "" || !r.OK) {
				out.violate(P, "not-writable-after-compaction", "not-writable-after-compaction op=update", "update of %s with its current revision %d refused/failed after compaction: ok=%v err=%q", k, v.Rev, r.OK, r.Err)
				continue
			}
			if r != nil {
				d := w.ProbeOp(world.Op{K: "delete", Key: k, Rev: world.Rev{M: "abs", N: int64(r.Hdr)}, Node: node})
				if d != nil && (d.Err != "" || !d.OK) {
					out.violate(P, "not-writable-after-compaction", "not-writable-after-compaction op=delete", "delete of %s with its current revision %d refused/failed after compaction: ok=%v err=%q", k, r.Hdr, d.OK, d.Err)
				}
			}
		}
		w.ProbeOp(world.Op{K: "waitcommitted", Node: node})
		verify("after post-compaction writes")
	})
	if !ok {
		out.Inconclusive = "verification task did not finish"
	}
}

func diffKeys(a, b []model.KV) []string {
	am, bm := map[string]model.KV{}, map[string]model.KV{}
	for _, kv := range a {
		am[kv.Key] = kv
	}
	for _, kv := range b {
		bm[kv.Key] = kv
	}
	var out []string
	for k, x := range am {
		if y, ok := bm[k]; !ok || y.Rev != x.Rev || string(y.Val) != string(x.Val) {
			out = append(out, k)
		}
	}
	for k := range bm {
		if _, ok := am[k]; !ok {
			out = append(out, k)
		}
	}
	return out
}

func checkC07(c *Ctx) {
	const P = "C07"
	w, sc, out := c.W, c.Sc, c.Out
	// "every key stays writable with normal semantics": a refused write racing the compaction must be justified by
	// the key's states during the request, as in C01
	checkChain(c, P, true)
	// ground truth: which records did compaction delete?
	m := c.M
	var reff uint64
	for _, r := range w.Recs {
		if r.Op.K == "compact" {
			e := r.Hdr
			if !r.Done {
				e = r.RevAbs
				if e == 0 || e > r.ComInv {
					e = r.ComInv
				}
			}
			if e > reff {
				reff = e
			}
		}
	}
	// a compaction never goes further than it was asked to (reads between the requested and the effective
	// revision would be refused or answered from compacted data)
	for _, r := range w.Recs {
		if r.Op.K == "compact" && r.Done && r.Err == "" && r.RevAbs != 0 && r.RevAbs <= r.ComInv && r.Hdr > r.RevAbs {
			out.violate(P, "compacted-above-request", "compacted-above-request",
				"Compact(%d) answered that it compacted at %d (committed revision at the request: %d)", r.RevAbs, r.Hdr, r.ComInv)
		}
	}
	dels, failed := 0, 0
	for _, e := range w.KV.GT {
		if e.Call != "del" && e.Call != "delcur" {
			continue
		}
		if !e.Applied {
			failed++
			continue
		}
		dels++
		mu := e.Muts[0]
		if !mu.InLay {
			continue
		}
		if !inCompactionRange(sc, mu.Raw) {
			out.violate(P, "key-outside-compaction-range-touched", "key-outside-compaction-range-touched"+skipClass(sc),
				"compaction deleted a record of %s (rev %d), which lies outside the configured compaction ranges (prefix %s, skipped %v)", mu.Raw, mu.Rev, sc.Prefix, sc.Skipped)
			continue
		}
		if mu.Rev == 0 {
			// index record: only a tombstoned index whose revision <= R
			if len(mu.Old) != 9 {
				out.violate(P, "forbidden-delete", "forbidden-delete index-of-live-key", "compaction deleted the index record of live key %s", mu.Raw)
			}
			continue
		}
		if mu.Rev > reff {
			out.violate(P, "forbidden-delete", "forbidden-delete version-above-R", "compaction at %d deleted version %d of %s", reff, mu.Rev, mu.Raw)
			continue
		}
		// a version may go only if it is a tombstone or a newer version <= R exists
		v, _ := m.At(mu.Raw, mu.Rev)
		newer := false
		for _, x := range m.Keys[mu.Raw] {
			if x.Rev > mu.Rev && x.Rev <= reff {
				newer = true
			}
		}
		if !(v.Rev == mu.Rev && v.Tomb) && !newer {
			out.violate(P, "forbidden-delete", "forbidden-delete newest-version<=R", "compaction at %d deleted version %d of %s although no newer version <= %d exists", reff, mu.Rev, mu.Raw, reff)
		}
	}
	if dels > 0 {
		out.NonTrivial = true
		out.probe("compaction-deleted-records")
	}
	if failed > 0 {
		out.probe("compaction-delete-failed")
	}
	if n, _ := w.Nodes[0].M.Count["compact.skip"]; n > 0 {
		out.probe("skip-after-failure-engaged")
	}
	for _, e := range w.KV.GT {
		if e.Call == "delcur" && !e.Applied && e.ErrClass == "cas" && e.Fault == "" {
			out.probe("compare-and-delete-lost-to-concurrent-write")
		}
	}
}

func init() {
	register(&Prop{ID: "C07", Gen: genC07, Epilogue: c07Epilogue, Check: checkC07})
}
