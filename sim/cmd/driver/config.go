package main

var realAll = []string{"pkg/backend (txn, range, scanner, compact, watch, watcherhub, ring, retry, tso, creator, coder) built with -tags verif (hook lines only)",
	"pkg/storage/memkv", "pkg/storage/badger (Badger v1.6.2 on tmpfs)", "pkg/storage/tikv over the client-go mock TiKV cluster", "pkg/storage/metrics wrapper (some runs)"}
var stubAll = []string{"clock: testing/synctest fake clock", "goroutine scheduling: seeded token scheduler", "engine faults and contract freedoms: simkv seam over storage.KvStorage",
	"metrics client: recording stub (real Prometheus client only in C20)", "gRPC/HTTP transport: not run, Backend interface called directly"}

var assumeAll = []string{
	"sampled, not exhaustive: a clean batch is evidence, not proof",
	"goroutines that never reach a cooperative point (watch filters, scan workers between engine calls) react atomically with the step that woke them",
	"engine-level faults are injected at the storage.KvStorage boundary; nothing below Badger / the TiKV client is faulted",
	"the simulator's own decoder of the documented key layout (magic+raw+'$'+8-byte revision) defines the ground truth",
}

var configs = map[string]propCfg{
	"C01": {
		Level:      "exploration",
		Rule:       "Seeded scenarios: 2-4 concurrent clients issue create/update/delete/get on 1-3 shared keys from every initial key state (never existed, live, deleted, deleted-and-compacted) with latest/stale/zero/future/tombstone expectations, on memkv/Badger/TiKV-mock; every interleaving of client steps and engine pre/post points is drawn from the run PRNG; every 5th run also injects definite engine errors.",
		NonTrivial: "two write requests on the same key overlapped in scheduler steps.",
		Quick:      tierCfg{BudgetS: 40, Chunk: 150, MaxRuns: 200000},
		Thorough:   tierCfg{BudgetS: 900, Chunk: 150, MaxRuns: 5000000},
		Assume:     assumeAll, Real: realAll, Stub: stubAll,
	},
	"C02": {
		Level:      "exploration",
		Rule:       "Same concurrent-writer scenarios as C01 with point and range reads mixed in (revision 0, last header, header-k, known modification revisions).",
		NonTrivial: "two write attempts of different clients were in flight at the same time (overlapping invoke/return intervals).",
		Quick:      tierCfg{BudgetS: 40, Chunk: 150, MaxRuns: 200000},
		Thorough:   tierCfg{BudgetS: 900, Chunk: 150, MaxRuns: 5000000},
		Assume:     assumeAll, Real: realAll, Stub: stubAll,
	},
	"C04": {
		Level:      "exploration",
		Rule:       "Concurrent-writer scenarios whose expectations include revisions far in the future (max+k, 2^40, 2^62, MaxUint64); every 4th run injects definite engine errors on data commits; the committed revision is sampled after every scheduler step; after the workload a probe write, list and watch must become visible within 15 simulated seconds.",
		NonTrivial: "a later-allocated write finished its storage transaction before an earlier-allocated one.",
		Quick:      tierCfg{BudgetS: 40, Chunk: 150, MaxRuns: 200000},
		Thorough:   tierCfg{BudgetS: 900, Chunk: 150, MaxRuns: 5000000},
		Assume:     assumeAll, Real: realAll, Stub: stubAll,
	},
	"C03": {
		Level:      "exploration",
		Rule:       "Seeded histories of 10-60 create/update/delete (successful and failing) over prefix-related keys (a, a/b, a-b, ab, keys outside the prefix) with values including the reserved marker, 8/9-byte index look-alikes and bytes >= 0x80; Get/List/Count at every kind of revision (0, any from the first on, last header, header-k) with bounds on/between/outside keys and limits 0..n+1; every read is asked again after further writes and (40%) a compaction; classes: sequential, concurrent readers+writers under seeded schedules, +injected read errors; engines memkv/Badger/TiKV-mock; limit-as-hint freedom.",
		NonTrivial: "at least one read at an explicit historical revision <= the committed revision was compared with the model.",
		Quick:      tierCfg{BudgetS: 40, Chunk: 100, MaxRuns: 200000},
		Thorough:   tierCfg{BudgetS: 900, Chunk: 100, MaxRuns: 5000000},
		Assume:     assumeAll, Real: realAll, Stub: stubAll,
	},
	"C05": {
		Level:      "exploration",
		Rule:       "Seeded scenarios: 1-3 writers (successful and failing create/update/delete) and 1-7 watchers registering at arbitrary steps with prefixes {whole, sub-prefix, single key, non-matching} and start revisions {0, first+k, committed-k, committed, committed+1, committed+k, last header}; event-cache sizes {1,2,3,5,8,64,default}; consumer policies eager / every-N-steps / never; cancels; slot-ring wrap via the initial revision; yield points after subscription, after cache read, before cache insert, before broadcast, in the hub. 1 run in 40 plus a directed corpus is a long shallow run (>10 100 one-event batches) that overflows a subscriber buffer with a late slow consumer and a stalled drop.",
		NonTrivial: "a watch registration overlapped a write request in scheduler steps and the watcher received events.",
		Quick:      tierCfg{BudgetS: 45, Chunk: 120, MaxRuns: 200000},
		Thorough:   tierCfg{BudgetS: 900, Chunk: 120, MaxRuns: 5000000},
		Assume:     assumeAll, Real: realAll, Stub: stubAll,
	},
	"C06": {
		Level:      "exploration",
		Rule:       "Seeded scenarios: 1-2 readers list a prefix (served at revision R), watch it from R+1 and list again at several later moments; 1-3 concurrent writers (successful and failing writes) and compactions at arbitrary revisions; memkv and Badger; sequencer yield points active. Oracle uses observables only: list(R) + delivered events with revision <= R' must equal list(R').",
		NonTrivial: "at least one later list was compared after at least one event had been applied.",
		Quick:      tierCfg{BudgetS: 40, Chunk: 150, MaxRuns: 200000},
		Thorough:   tierCfg{BudgetS: 900, Chunk: 150, MaxRuns: 5000000},
		Assume:     assumeAll, Real: realAll, Stub: stubAll,
	},
	"C07": {
		Level:      "fault_enumeration",
		Rule:       "For each sampled history (6-30 sequential writes over <=6 keys inside the prefix, inside skipped prefixes and outside the prefix; multi-version keys, tombstones, re-created keys; prefix/skipped-prefix configurations none/one/two/nested/sibling) and compaction revision R, 48 variants are executed: no fault; the k-th compaction delete (k=1..8) failing with each of {definite error, unknown-outcome applied, unknown-outcome lost, lost compare-and-delete}; the compacting node crashing after its k-th delete (k=1..8) with a fresh node taking over; random multiple delete failures; 1-2 writers (create/update/delete/compact) racing the compactor under seeded schedules. Afterwards Get and List at every revision in [R_eff, committed] (up to 14) and at 0 are compared with an MVCC model that ignores compaction, a second compaction is run and reads are verified again, and every key is written with normal semantics; the ground truth is scanned for deletes outside the configured ranges or forbidden by the rules.",
		NonTrivial: "the compaction really deleted at least one record.",
		Quick:      tierCfg{BudgetS: 45, Chunk: 96, MaxRuns: 400000},
		Thorough:   tierCfg{BudgetS: 900, Chunk: 96, MaxRuns: 5000000},
		Assume:     assumeAll, Real: realAll, Stub: stubAll,
	},
	"C08": {
		Level:      "exploration",
		Rule:       "Seeded sequences of writes, Compact requests (increasing, repeated, decreasing, 0, above current, relative to the committed revision) and List / limited List / ListByStream / Count at revisions around every floor value; every third run has 2-3 clients racing compactions against each other and against reads under seeded schedules; memkv, Badger, TiKV-mock. Floor model = max effective revision of accepted compactions; the stored record is followed through the ground truth.",
		NonTrivial: "at least one range read named a revision below a floor that had been accepted before the read began.",
		Quick:      tierCfg{BudgetS: 40, Chunk: 150, MaxRuns: 200000},
		Thorough:   tierCfg{BudgetS: 900, Chunk: 150, MaxRuns: 5000000},
		Assume:     assumeAll, Real: realAll, Stub: stubAll,
	},
	"C09": {
		Level:      "fault_enumeration",
		Rule:       "For each sampled script (3-11 create/update/delete/compact by one or two writers on 1-3 keys, with pauses shorter and longer than the 5 s retry interval, plus a list-then-watch reader) 40 variants are executed: one unknown-outcome fault on the k-th client data commit (k=1..8) in both variants (applied / not applied); the same plus a fault on the repair write itself (unknown-outcome applied / lost / definite error); pairs of faults. The simulated clock runs through the retry interval; after the faults stop, 21 more simulated seconds pass before the convergence checks.",
		NonTrivial: "an unknown-outcome fault actually fired on a client data commit.",
		Quick:      tierCfg{BudgetS: 45, Chunk: 120, MaxRuns: 400000},
		Thorough:   tierCfg{BudgetS: 900, Chunk: 120, MaxRuns: 5000000},
		Assume:     assumeAll, Real: realAll, Stub: stubAll,
	},
	"C11": {
		Level:      "exploration",
		Rule:       "Seeded raw-engine scripts by 1-3 clients interleaved by the scheduler on memkv, Badger and the TiKV mock cluster, each also behind the metrics wrapper: batches of 1-4 operations (put, put-if-absent, compare-and-swap with right and wrong expectations, delete, compare-and-delete through an open iterator; conditions on missing keys; several conditions per batch; on Badger/TiKV optionally kept open across other clients' commits), Get, Del, DelCurrent, forward/backward/limited iterators with bounds on, between and outside keys that stay open across other clients' commits. A sorted-map model runs in lock-step; the final full scan must equal the model.",
		NonTrivial: "the run contained both an applied batch and a batch refused for a failed condition.",
		Quick:      tierCfg{BudgetS: 35, Chunk: 150, MaxRuns: 400000},
		Thorough:   tierCfg{BudgetS: 600, Chunk: 150, MaxRuns: 5000000},
		Assume:     assumeAll, Real: []string{"pkg/storage/memkv", "pkg/storage/badger (Badger v1.6.2 on tmpfs)", "pkg/storage/tikv over the client-go mock TiKV cluster", "pkg/storage/metrics wrapper"}, Stub: []string{"goroutine scheduling: seeded token scheduler", "clock: synctest fake clock", "no node code runs in this property: clients are raw engine users"},
	},
	"C12": {
		Level:      "exploration",
		Rule:       "Seeded sequential request histories (10-35 requests: create, update/delete with correct, stale, zero, tombstone and future expectations on existing, missing, deleted and compacted keys; Get/List/limited List/Count at several revisions; compactions; watches from several start revisions) executed on memkv, Badger, TiKV-mock and Badger behind the metrics wrapper under the simulated clock and seam; transcripts normalised by revision rank and error-vs-response are compared pairwise against the memkv run. No schedule dimension: the deciding step is seeded history generation.",
		NonTrivial: "the transcript has more than 5 lines.",
		Quick:      tierCfg{BudgetS: 40, Chunk: 40, MaxRuns: 100000},
		Thorough:   tierCfg{BudgetS: 600, Chunk: 40, MaxRuns: 2000000},
		Assume:     assumeAll, Real: realAll, Stub: stubAll,
	},
	"C13": {
		Level:      "exploration",
		Rule:       "Seeded sequential histories (8-37 writes incl. failing ones) followed by unlimited List, Count, whole-range ListByStream and GetPartitions + ListByStream per advertised partition at revision 0 and historical revisions, under 1-5 partition borders drawn from {index records, version records in the middle of a key's versions, well-formed keys of existing raw keys at arbitrary revisions, keys of raw keys that do not exist, duplicates}, returned in sorted, reversed or rotated order by the seam over memkv, Badger and the (single-region) TiKV mock.",
		NonTrivial: "the run had at least one partition border.",
		Quick:      tierCfg{BudgetS: 40, Chunk: 120, MaxRuns: 200000},
		Thorough:   tierCfg{BudgetS: 900, Chunk: 120, MaxRuns: 5000000},
		Assume:     assumeAll, Real: realAll, Stub: stubAll,
	},
	"C14": {
		Level:      "exploration",
		Rule:       "2-3 candidates, each with its own backend over one shared engine (memkv, Badger, TiKV-mock, sometimes behind the metrics wrapper), run seeded scripts over the real resourcelock.Interface (Get; Create; Get followed by Create-if-absent or Update, as client-go's elector does), with the scheduler interleaving their engine steps (point read, timestamp read, commit before/after).",
		NonTrivial: "acquire attempts (create/update) of two candidates overlapped in scheduler steps.",
		Quick:      tierCfg{BudgetS: 35, Chunk: 150, MaxRuns: 400000},
		Thorough:   tierCfg{BudgetS: 600, Chunk: 150, MaxRuns: 5000000},
		Assume:     assumeAll, Real: append([]string{"pkg/backend/election (resource lock)"}, realAll...), Stub: append([]string{"client-go LeaderElector loop: replaced by seeded candidate scripts over the real resourcelock.Interface (the elector itself runs in C15/C18)"}, stubAll...),
	},
}

// expectedProbes lists the reach probes whose absence is reported as a coverage gap.
var expectedProbes = map[string][]string{
	"C01": {"overlapping-writes-on-one-key", "create-over-tombstone", "engine-condition-failed", "engine-txn-conflict", "delete-refused-newrev<=modrev", "drift-back"},
	"C02": {"concurrent-allocations"},
	"C04": {"later-allocated-write-finished-first", "drift-back"},
	"C05": {"registration-raced-with-write", "start-inside-history", "cache-wrapped", "watch-refused", "subscriber-dropped", "events-delivered"},
	"C06": {"compared-with-events-applied", "compaction-overlapped-watch"},
	"C07": {"compaction-deleted-records", "compaction-delete-failed", "skip-after-failure-engaged", "compactor-crashed", "second-compaction", "compare-and-delete-lost-to-concurrent-write"},
	"C08": {"read-below-accepted-floor", "older-compaction-after-newer"},
	"C09": {"retry-rewrote", "retry-ran", "convergence-compared", "repair-write-itself-uncertain-applied", "repair-write-itself-uncertain-lost", "unknown-outcome-delete-uncertain-applied", "unknown-outcome-create-uncertain-lost"},
	"C11": {"batch-applied", "batch-condition-failed", "backward-iteration", "iterator-read-past-concurrent-write", "compare-and-delete-applied", "compare-and-delete-refused", "batch-open-across-steps"},
	"C12": {"guarded-update-of-absent-key", "compaction-in-history"},
	"C13": {"several-advertised-partitions", "multi-partition-stream-read", "border-inside-a-keys-versions", "stream-with-data"},
	"C14": {"acquire-attempts-overlapped", "acquire-succeeded", "acquire-refused"},
	"C03": {"read-at-historical-revision", "limit-cut-result", "compaction-before-reread"},
}
