package props

import (
	"fmt"
	"verif/sim/rt"
	"verif/sim/simkv"
	"verif/sim/world"
)

func init() {
	register(&Prop{
		ID: "C01",
		Gen: func(r *rt.Rand, tier string, idx int) *world.Scenario {
			o := writeOpts{}
			if idx%5 == 4 {
				o.faults = "err"
			}
			if idx%5 == 3 {
				o.compactor = true
			}
			sc := genWrites(r, tier, idx, o)
			if idx%16 == 7 {
				// a commit whose outcome is unknown and that has landed: the retry loop repairs it, and the
				// conditional writes that follow must see the key as it then is
				sc.Class += "+unknown-outcome-repaired"
				sc.Plan = append(sc.Plan, &simkv.Fault{Op: "commit", Class: "data", Who: "client", Nth: (idx/16)%6 + 1, Effect: "uncertain-applied"})
				for i := range sc.Clients {
					ops := sc.Clients[i].Ops
					at := len(ops) / 2
					sc.Clients[i].Ops = append(append(append([]world.Op{}, ops[:at]...), world.Op{K: "sleep", Ms: 7000}), ops[at:]...)
				}
				sc.Extra = map[string]int64{"keep_faults": 1}
			}
			if idx%16 == 6 {
				// a slow engine under requests with a one-second deadline
				sc.Class += "+slow-commit-and-deadlines"
				sc.Plan = append(sc.Plan, &simkv.Fault{Op: "commit", Class: "data", Nth: (idx/16)%6 + 1, Effect: fmt.Sprintf("delay:%d", 1200+r.Intn(3000))})
				for i := range sc.Clients {
					for j := range sc.Clients[i].Ops {
						if isWrite(sc.Clients[i].Ops[j].K) {
							sc.Clients[i].Ops[j].Timeout = 1000
						}
					}
				}
			}
			return sc
		},
		Epilogue: writesEpilogue,
		Check:    checkC01,
	})
	register(&Prop{
		ID: "C02",
		Gen: func(r *rt.Rand, tier string, idx int) *world.Scenario {
			// (every fourth run with a client compacting at, below and ahead of the committed revision)
			return genWrites(r, tier, idx, writeOpts{reads: true, compactor: idx%4 == 1})
		},
		Epilogue: writesEpilogue,
		Check:    checkC02,
	})
	register(&Prop{
		ID: "C04",
		Gen: func(r *rt.Rand, tier string, idx int) *world.Scenario {
			o := writeOpts{future: true}
			if idx%5000 == 77 {
				return genRingLap(r)
			}
			if idx%400 == 133 {
				return genBurstBehindSlowCommit(r)
			}
			if idx%4 == 3 {
				o.faults = "err"
			}
			sc := genWrites(r, tier, idx, o)
			if idx%16 == 5 {
				// a slow engine and requests with deadlines (the etcd-facing handlers give every write
				// one second): a request that gives up must not let its revision be resolved while its
				// storage transaction is still in flight
				sc.Class = "writers+slow-commit-and-deadlines"
				k := (idx/16)%6 + 1
				sc.Plan = append(sc.Plan, &simkv.Fault{Op: "commit", Class: "data", Nth: k, Effect: fmt.Sprintf("delay:%d", 1200+r.Intn(3000))})
				for i := range sc.Clients {
					for j := range sc.Clients[i].Ops {
						if isWrite(sc.Clients[i].Ops[j].K) {
							sc.Clients[i].Ops[j].Timeout = 1000
						}
					}
				}
				return sc
			}
			if idx%4 == 2 {
				// every placement of one storage fault over the first 8 data commits x 3 kinds
				k, kind := (idx/4)%8+1, []string{"err", "uncertain-applied", "uncertain-lost"}[(idx/32)%3]
				sc.Class = "writers+one-fault-at-commit-k"
				sc.Plan = append(sc.Plan, &simkv.Fault{Op: "commit", Class: "data", Nth: k, Effect: kind})
				if (idx/4)%2 == 1 && kind == "uncertain-applied" {
					// ... and the repair write of the retry loop, which allocates a revision too, fails
					sc.Class = "writers+unknown-outcome-then-failing-repair"
					sc.Plan = append(sc.Plan, &simkv.Fault{Op: "commit", Class: "data", Who: "retry.tick", Nth: 1, Effect: []string{"err", "uncertain-lost"}[(idx/8)%2]})
					for i := range sc.Clients {
						sc.Clients[i].Ops = append(sc.Clients[i].Ops, world.Op{K: "sleep", Ms: 7000})
					}
					sc.Extra = map[string]int64{"keep_faults": 1}
				}
			}
			return sc
		},
		Setup:    func(c *Ctx) { c.W.SampleCommitted = true },
		Epilogue: writesEpilogue,
		Check:    checkC04,
	})
}

// genRingLap: the sequencer's slot ring has 100 000 slots (a constant of the backend). One failed and
// one successful write, then a full lap of further revisions on the same node: whatever an earlier
// event left in its slot meets the sequencer again exactly one lap later. Long (about 100 000 writes),
// therefore rare (one run in 5000).
// genBurstBehindSlowCommit: one write's storage commit answers late while a few hundred later writes
// complete: when it finally answers, the sequencer finds more ready revisions in a row than it
// publishes in one batch (300).
func genBurstBehindSlowCommit(r *rt.Rand) *world.Scenario {
	sc := &world.Scenario{Prefix: prefix, InitRev: pickInitRev(r), Seed: r.Uint64(), Engine: "memkv", Class: "burst-behind-a-slow-commit", Stick: 0.9}
	sc.Inactive = []string{"kv.get", "kv.get.ret", "kv.commit.ret", "kv.parts", "seq.cache", "seq.bcast", "seq.sent", "hub.recv", "client.next"}
	sc.Plan = []*simkv.Fault{{Op: "commit", Class: "data", Who: "client0", Nth: 1, Effect: fmt.Sprintf("delay:%d", 2000+r.Intn(3000))}}
	n := int64(290 + r.Intn(150))
	sc.Clients = []world.Client{
		{Ops: []world.Op{{K: "watch", Key: prefix + "/", W: 1, Consume: "eager"}, {K: "create", Key: prefix + "/slow", Val: "s"}}},
		{Ops: []world.Op{{K: "sleep", Ms: 100}, {K: "burst", Key: prefix + "/f", Val: "b", Limit: n, Ms: n}, {K: "sleep", Ms: 6000}, {K: "waitcommitted"}}},
	}
	sc.MaxSteps = 400000
	return sc
}

func genRingLap(r *rt.Rand) *world.Scenario {
	sc := &world.Scenario{Prefix: prefix, InitRev: pickInitRev(r), Seed: r.Uint64(), Engine: "memkv", Class: "slot-ring-full-lap", Stick: 0.9}
	sc.Inactive = []string{"kv.get", "kv.get.ret", "kv.commit", "kv.commit.ret", "kv.parts", "kv.del", "kv.del.ret", "kv.delcur", "kv.delcur.ret",
		"seq.cache", "seq.bcast", "watch.subscribed", "watch.cacheread", "hub.recv", "client.next"}
	k := keyUniverse[r.Intn(len(keyUniverse))]
	var cl world.Client
	cl.Ops = append(cl.Ops, world.Op{K: "create", Key: k, Val: "lap0"})
	for i := 0; i < 2+r.Intn(3); i++ {
		switch i % 3 {
		case 0:
			cl.Ops = append(cl.Ops, world.Op{K: "create", Key: k, Val: "dup"}) // fails: the key exists
		case 1:
			cl.Ops = append(cl.Ops, world.Op{K: "update", Key: k, Val: "stale", Rev: world.Rev{M: "stale", N: 1}})
		case 2:
			cl.Ops = append(cl.Ops, world.Op{K: "update", Key: k, Val: "ok", Rev: world.Rev{M: "known"}})
		}
	}
	cl.Ops = append(cl.Ops, world.Op{K: "burst", Key: k, Val: "b", Limit: 100010 + int64(r.Intn(40)), W: 1}) // W: every write is sequenced before the next one starts
	sc.Clients = []world.Client{cl}
	sc.MaxSteps = 20000000
	return sc
}
