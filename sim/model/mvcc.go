// Package model holds the small executable reference models used as oracles.
package model

import (
	"bytes"
	"sort"

	"verif/sim/simkv"
)

// Ver is one version of a raw key as really applied to the engine.
type Ver struct {
	Rev   uint64
	Val   []byte
	Tomb  bool // the batch that wrote it marked the index record as deleted
	Entry *simkv.Entry
}

// KV is a user-visible key-value.
type KV struct {
	Key string
	Val []byte
	Rev uint64
}

// MVCC is the multi-version map rebuilt from the ground truth: writes only,
// compaction deletes are ignored on purpose (that is property C07).
type MVCC struct {
	Keys map[string][]Ver
}

// FromGT builds the model from applied batches. A version record is a
// tombstone iff the index mutation of the same batch carries the 9-byte
// "revision + deletion flag" form — independent of the marker bytes.
func FromGT(gt []*simkv.Entry) *MVCC {
	m := &MVCC{Keys: map[string][]Ver{}}
	for _, e := range gt {
		if !e.Applied || e.Call != "commit" {
			continue
		}
		tomb := map[string]bool{}
		for _, mu := range e.Muts {
			if mu.InLay && mu.Rev == 0 && (mu.Op == "cas" || mu.Op == "pine" || mu.Op == "put") {
				tomb[mu.Raw] = len(mu.Val) == 9
			}
		}
		for _, mu := range e.Muts {
			if mu.InLay && mu.Rev > 0 && (mu.Op == "put" || mu.Op == "pine" || mu.Op == "cas") {
				m.Keys[mu.Raw] = append(m.Keys[mu.Raw], Ver{Rev: mu.Rev, Val: mu.Val, Tomb: tomb[mu.Raw], Entry: e})
			}
		}
	}
	for k := range m.Keys {
		vs := m.Keys[k]
		sort.SliceStable(vs, func(i, j int) bool { return vs[i].Rev < vs[j].Rev })
	}
	return m
}

// At returns the newest version of key with revision <= R (R==0: newest).
func (m *MVCC) At(key string, R uint64) (Ver, bool) {
	vs := m.Keys[key]
	for i := len(vs) - 1; i >= 0; i-- {
		if R == 0 || vs[i].Rev <= R {
			return vs[i], true
		}
	}
	return Ver{}, false
}

// Snap returns the visible key-values of [start,end) at R, sorted by key.
func (m *MVCC) Snap(R uint64, start, end string) []KV {
	var out []KV
	for k := range m.Keys {
		if k < start || (end != "" && k >= end) {
			continue
		}
		if v, ok := m.At(k, R); ok && !v.Tomb {
			out = append(out, KV{Key: k, Val: v.Val, Rev: v.Rev})
		}
	}
	sort.Slice(out, func(i, j int) bool { return out[i].Key < out[j].Key })
	return out
}

// MaxRev is the highest revision of any version record.
func (m *MVCC) MaxRev() uint64 {
	var x uint64
	for _, vs := range m.Keys {
		for _, v := range vs {
			if v.Rev > x {
				x = v.Rev
			}
		}
	}
	return x
}

// EqualKVs compares two key-value lists exactly.
func EqualKVs(a, b []KV) bool {
	if len(a) != len(b) {
		return false
	}
	for i := range a {
		if a[i].Key != b[i].Key || a[i].Rev != b[i].Rev || !bytes.Equal(a[i].Val, b[i].Val) {
			return false
		}
	}
	return true
}
